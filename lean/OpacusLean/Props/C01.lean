import OpacusLean.Lemmas.GradSample
/-! # C01 — per-sample gradients equal the gradient of each sample taken alone

Part 1: adjoint identities.  For a layer whose forward on one sample is `fwd θ a` (linear in the
parameters θ), the gradient of `ℓ(fwd θ a)` w.r.t. θ is the parameter-VJP `L(a)ᵀ b` with
`b = ∇ℓ`; it is the unique `g` with `⟨b, fwd θ a⟩ = ⟨g, θ⟩` for all θ (`adjoint_unique`).  Each
theorem below states that row `n` of the coded sampler is that `g` for sample `n`, for all shapes
and over every commutative ring. -/
namespace Opacus.C01
open Opacus.GS

variable {R : Type} [CommRing R]

/-! ## nn.Linear / RNNLinear -/

theorem sampler_adjoint_linear {N T O I : Nat}
    (w : Fin O → Fin I → R) (bias : Fin O → R)
    (a : Fin N → Fin T → Fin I → R) (b : Fin N → Fin T → Fin O → R) (n : Fin N) :
    (∑ t, ∑ i, b n t i * linearFwd w bias (a n) t i)
      = (∑ i, ∑ j, linearWeightGS b a n i j * w i j) + ∑ i, linearBiasGS b n i * bias i := by
  simp only [linearFwd, linearWeightGS, linearBiasGS, sumFin_eq_sum, mul_add, Finset.sum_add_distrib,
    Finset.mul_sum, Finset.sum_mul]
  congr 1
  · rw [Finset.sum_comm]
    refine Finset.sum_congr rfl fun i _ => ?_
    rw [Finset.sum_comm]
    refine Finset.sum_congr rfl fun j _ => ?_
    refine Finset.sum_congr rfl fun t _ => ?_
    ring
  · rw [Finset.sum_comm]

/-- bias-free layer (`layer.bias is None`): weight part alone -/
theorem sampler_adjoint_linear_nobias {N T O I : Nat}
    (w : Fin O → Fin I → R) (a : Fin N → Fin T → Fin I → R) (b : Fin N → Fin T → Fin O → R) (n : Fin N) :
    (∑ t, ∑ i, b n t i * linearFwd w (fun _ => 0) (a n) t i)
      = ∑ i, ∑ j, linearWeightGS b a n i j * w i j := by
  simpa using sampler_adjoint_linear w (fun _ => 0) a b n

/-- the sampler returns exactly the entries for parameters that exist and require grad -/
theorem linearGS_keys {N T O I : Nat} (wr : Bool) (br : Option Bool)
    (a : Fin N → Fin T → Fin I → R) (b : Fin N → Fin T → Fin O → R) :
    ((linearGS wr br a b).weight = if wr then some (linearWeightGS b a) else none) ∧
    ((linearGS wr br a b).bias = if br = some true then some (linearBiasGS b) else none) := ⟨rfl, rfl⟩

/-! ## nn.Embedding -/

/-- repaired variant, any `padding_idx` (and as coded when there is no `padding_idx`) -/
theorem sampler_adjoint_embedding {N T V D : Nat} (pad : Option (Fin V))
    (w : Fin V → Fin D → R) (idx : Fin N → Fin T → Fin V) (b : Fin N → Fin T → Fin D → R) (n : Fin N) :
    (∑ t, ∑ d, b n t d * embeddingFwd pad w (idx n) t d)
      = ∑ v, ∑ d, embeddingGS .repaired pad idx b n v d * w v d := by
  simp only [embeddingFwd, embeddingGS, sumFin_eq_sum, true_and]
  -- both sides as a triple sum of `F t d v`
  let F : Fin T → Fin D → Fin V → R := fun t d v =>
    if idx n t = v then (if pad = some v then 0 else b n t d * w v d) else 0
  have hL : ∀ t d, b n t d * (if pad = some (idx n t) then (0 : R) else w (idx n t) d) = ∑ v, F t d v := by
    intro t d
    simp only [F, Finset.sum_ite_eq, Finset.mem_univ, if_true]
    split_ifs <;> simp
  have hR : ∀ v d, (if pad = some v then (0 : R) else ∑ t, if idx n t = v then b n t d else 0) * w v d
      = ∑ t, F t d v := by
    intro v d
    simp only [F]
    split_ifs with h
    · simp
    · rw [Finset.sum_mul]; refine Finset.sum_congr rfl fun t _ => ?_; split_ifs <;> simp
  simp only [hL, hR]
  calc ∑ t, ∑ d, ∑ v, F t d v = ∑ t, ∑ v, ∑ d, F t d v :=
        Finset.sum_congr rfl fun t _ => Finset.sum_comm
    _ = ∑ v, ∑ t, ∑ d, F t d v := Finset.sum_comm
    _ = ∑ v, ∑ d, ∑ t, F t d v := Finset.sum_congr rfl fun v _ => Finset.sum_comm

theorem embedding_asCoded_eq_repaired_of_no_padding {N T V D : Nat}
    (idx : Fin N → Fin T → Fin V) (b : Fin N → Fin T → Fin D → R) :
    embeddingGS .asCoded none idx b = embeddingGS .repaired none idx b := by
  funext n v d; simp [embeddingGS]

/-- the repaired sampler leaves the padding row at zero, as torch's backward does -/
theorem embedding_repaired_padding_row_zero {N T V D : Nat} (p : Fin V)
    (idx : Fin N → Fin T → Fin V) (b : Fin N → Fin T → Fin D → R) (n : Fin N) (d : Fin D) :
    embeddingGS .repaired (some p) idx b n p d = 0 := by
  simp [embeddingGS]

/-- D2 witness (replayed on the real code): `nn.Embedding(2, 1, padding_idx=0)`, one sample `[0]`,
backprop `[[5]]`: as coded the padding row receives 5, torch's gradient there is 0. -/
theorem embedding_padding_counterexample :
    embeddingGS (R := Int) .asCoded (some (0 : Fin 2)) (fun (_ : Fin 1) (_ : Fin 1) => 0)
        (fun _ _ (_ : Fin 1) => 5) 0 0 0 = 5 ∧
    embeddingGS (R := Int) .repaired (some (0 : Fin 2)) (fun (_ : Fin 1) (_ : Fin 1) => 0)
        (fun _ _ (_ : Fin 1) => 5) 0 0 0 = 0 := by decide

/-! ## nn.EmbeddingBag -/

/-- repaired variant (multiplicities counted), both modes, over any field (`x / 0 = 0` matches the
empty bag, for which both sides vanish) -/
theorem sampler_adjoint_embedding_bag {F : Type} [Field F] (mode : BagMode) {N L V D : Nat}
    (w : Fin V → Fin D → F) (index : Fin L → Fin V) (offset : Fin N → Nat) (b : Fin N → Fin D → F)
    (i : Fin N) :
    (∑ d, b i d * embeddingBagFwd Nat.cast mode w index offset i d)
      = ∑ v, ∑ d, embeddingBagGS Nat.cast .repaired mode index offset b i v d * w v d := by
  simp only [embeddingBagFwd, embeddingBagGS, sumFin_eq_sum]
  rw [Finset.sum_comm]
  refine Finset.sum_congr rfl fun d _ => ?_
  have hs : ∀ x y : F, bagScale Nat.cast mode L offset i x * y = bagScale Nat.cast mode L offset i (x * y) := by
    intro x y; cases mode <;> simp [bagScale, div_mul_eq_mul_div]
  have hs' : ∀ x y : F, x * bagScale Nat.cast mode L offset i y = bagScale Nat.cast mode L offset i (x * y) := by
    intro x y; cases mode <;> simp [bagScale, mul_div_assoc]
  have hsum : ∀ (f : Fin L → F), bagScale Nat.cast mode L offset i (∑ l, f l) = ∑ l, bagScale Nat.cast mode L offset i (f l) := by
    intro f; cases mode <;> simp [bagScale, Finset.sum_div]
  have h0 : bagScale Nat.cast mode L offset i (0 : F) = 0 := by cases mode <;> simp [bagScale]
  rw [hs', Finset.mul_sum, hsum]
  simp only [Finset.sum_mul]
  rw [Finset.sum_comm]
  refine Finset.sum_congr rfl fun l _ => ?_
  by_cases hb : inBag L offset i l.val = true
  · simp only [hb, true_and, if_true]
    have : ∀ v, (if index l = v then bagScale Nat.cast mode L offset i (b i d) else 0) * w v d
        = if index l = v then bagScale Nat.cast mode L offset i (b i d) * w v d else 0 := by
      intro v; split_ifs <;> simp
    simp only [this, Finset.sum_ite_eq, Finset.mem_univ, if_true, hs]
  · simp [hb, h0]

/-- D22 witness: one bag `[1, 1]` of `nn.EmbeddingBag(2, 1, mode="sum")`, backprop `[[3]]`:
as coded row 1 receives 3, the gradient is 6. -/
theorem embedding_bag_duplicate_counterexample :
    embeddingBagGS (R := Int) Int.ofNat .asCoded .sum (fun (_ : Fin 2) => (1 : Fin 2))
        (fun (_ : Fin 1) => 0) (fun _ (_ : Fin 1) => 3) 0 1 0 = 3 ∧
    embeddingBagGS (R := Int) Int.ofNat .repaired .sum (fun (_ : Fin 2) => (1 : Fin 2))
        (fun (_ : Fin 1) => 0) (fun _ (_ : Fin 1) => 3) 0 1 0 = 6 := by decide

/-! ## GroupNorm / InstanceNorm / LayerNorm -/

theorem sampler_adjoint_group_norm {N C S : Nat} (w β : Fin C → R)
    (xhat b : Fin N → Fin C → Fin S → R) (n : Fin N) :
    (∑ c, ∑ s, b n c s * normFwd w β (xhat n) c s)
      = (∑ c, normWeightGS xhat b n c * w c) + ∑ c, normBiasGS b n c * β c := by
  simp only [normFwd, normWeightGS, normBiasGS, sumFin_eq_sum, mul_add, Finset.sum_add_distrib,
    Finset.sum_mul]
  congr 1
  refine Finset.sum_congr rfl fun c _ => Finset.sum_congr rfl fun s _ => ?_
  ring

/-- InstanceNorm{1,2,3}d is served by the same formula -/
theorem sampler_adjoint_instance_norm {N C S : Nat} (w β : Fin C → R)
    (xhat b : Fin N → Fin C → Fin S → R) (n : Fin N) :
    (∑ c, ∑ s, b n c s * normFwd w β (xhat n) c s)
      = (∑ c, normWeightGS xhat b n c * w c) + ∑ c, normBiasGS b n c * β c :=
  sampler_adjoint_group_norm w β xhat b n

theorem sampler_adjoint_layer_norm {N M K : Nat} (w β : Fin K → R)
    (xhat b : Fin N → Fin M → Fin K → R) (n : Fin N) :
    (∑ m, ∑ k, b n m k * layerNormFwd w β (xhat n) m k)
      = (∑ k, layerNormWeightGS xhat b n k * w k) + ∑ k, layerNormBiasGS b n k * β k := by
  simp only [layerNormFwd, layerNormWeightGS, layerNormBiasGS, sumFin_eq_sum, mul_add,
    Finset.sum_add_distrib, Finset.sum_mul]
  congr 1
  · rw [Finset.sum_comm]
    refine Finset.sum_congr rfl fun c _ => Finset.sum_congr rfl fun s _ => ?_
    ring
  · rw [Finset.sum_comm]

/-- the repaired LayerNorm sampler never fails and returns the coded formulas -/
theorem layerNormGS_repaired_ok {N M K : Nat} (wr : Bool) (br : Option Bool)
    (xhat b : Fin N → Fin M → Fin K → R) :
    layerNormGS .repaired wr br xhat b = .ok
      { weight := if wr then some (layerNormWeightGS xhat b) else none
        bias := if br = some true then some (layerNormBiasGS b) else none } := by
  cases br <;> rfl

/-- as coded it agrees whenever the layer has a bias … -/
theorem layerNormGS_asCoded_with_bias {N M K : Nat} (wr br : Bool)
    (xhat b : Fin N → Fin M → Fin K → R) :
    layerNormGS .asCoded wr (some br) xhat b = layerNormGS .repaired wr (some br) xhat b := rfl

/-- … and D18: `nn.LayerNorm(bias=False)` makes the coded sampler raise instead of returning the
weight's per-sample gradient -/
theorem layer_norm_nobias_counterexample {N M K : Nat} (xhat b : Fin N → Fin M → Fin K → R) :
    layerNormGS .asCoded true none xhat b = .error .attributeError := rfl

/-! ## SequenceBias -/

theorem sampler_adjoint_sequence_bias {N L E : Nat} (bias : Fin E → R)
    (x : Fin N → Fin L → Fin E → R) (b : Fin N → Fin (L + 1) → Fin E → R) (n : Fin N) :
    (∑ t, ∑ e, b n t e * (sequenceBiasFwd bias (x n) t e - sequenceBiasFwd (fun _ => 0) (x n) t e))
      = ∑ e, sequenceBiasGS b n e * bias e := by
  simp only [sequenceBiasFwd, sequenceBiasGS]
  rw [Fin.sum_univ_castSucc]
  have h1 : ∀ t : Fin L, (∑ e, b n t.castSucc e *
      ((if h : (t.castSucc).val < L then x n ⟨(t.castSucc).val, h⟩ e else bias e) -
       (if h : (t.castSucc).val < L then x n ⟨(t.castSucc).val, h⟩ e else 0))) = 0 := by
    intro t
    refine Finset.sum_eq_zero fun e _ => ?_
    have : (t.castSucc).val < L := by simp
    simp
  simp only [h1, Finset.sum_const_zero, zero_add]
  refine Finset.sum_congr rfl fun e _ => ?_
  simp

end Opacus.C01
