import OpacusLean.Generated.ReleaseArith
import OpacusLean.Lemmas.PeekQueue
import OpacusLean.Model.Noise
import OpacusLean.Props.C05
import Mathlib.Probability.Distributions.Gaussian.Real
/-! # C04 — released noise is fresh isotropic Gaussian with std σ·C, drawn once per logical step -/
namespace Opacus.C04
open Opacus.Engine Opacus.Noise List

/-! ## Once per logical step, at the values in force (all op sequences) -/

theorem noises_append (a b : List Event) : noises (a ++ b) = noises a ++ noises b := by
  simp [noises, List.filterMap_append]

/-- a logical step draws exactly one noise block, with the σ and C in force at that step -/
theorem noise_block_values (c : Cfg) (s s' : St) (h : stepOp c s .step = (s', .released)) :
    noises s'.log = noises s.log ++ [(s.sigma, s.clip)] := by
  obtain ⟨t, ht⟩ := C05.account_values c s s' h
  rw [ht, noises_append]; simp [noises]

/-- nothing but an optimizer `step()` that gets past the skip check ever requests noise: in
particular no noise for skipped physical sub-batches, for backward passes, or for gradient clearing -/
theorem no_noise_unless_full_step (c : Cfg) (s : St) (o : Op)
    (h : (stepOp c s o).2 ≠ .released ∧ (stepOp c s o).2 ≠ .errGdp) :
    noises (stepOp c s o).1.log = noises s.log := by
  rcases C05.stepOp_log c s o with ⟨k, t, hr, _⟩ | ⟨hr, _⟩ | ⟨_, _, hlog, _⟩
  · exact absurd hr h.1
  · exact absurd hr h.2
  · rw [hlog]

/-- **noise_once_per_logical_step**: after any operation sequence (run-length-encoding accountants)
the number of noise blocks equals the number of inner-optimizer steps equals the number of
accountant records: once per logical step, never per physical sub-batch. -/
theorem noise_once_per_logical_step (c : Cfg) (hg : c.gdp = false) (σ C : Nat) (ops : List Op) :
    (noises (run c (init σ C) ops).log).length = (releases (run c (init σ C) ops).log).length := by
  have key : ∀ (ops : List Op) (s : St), (noises s.log).length = (releases s.log).length →
      (noises (run c s ops).log).length = (releases (run c s ops).log).length := by
    intro ops
    induction ops with
    | nil => intro s h; exact h
    | cons o ops ih =>
      intro s h
      apply ih
      rcases C05.stepOp_log c s o with ⟨k, t, _, hlog, _⟩ | ⟨_, hgd, _⟩ | ⟨_, _, hlog, _⟩
      · rw [hlog, noises_append, releases_append, List.length_append, List.length_append, h]
        simp [noises, releases]
      · rw [hg] at hgd; exact absurd hgd (by simp)
      · rw [hlog]; exact h
  exact key ops _ (by simp [init, noises, releases])

/-! ## `_generate_noise` -/

/-- **noise_zero_when_sigma_zero**: with `std = 0` nothing is requested from the generator and the
noise value is exactly zero -/
theorem noise_zero_when_std_zero (shape : List Nat) (secure : Bool) :
    genReqs (fun x : ℝ => decide (x = 0)) 0 shape secure = [] ∧ combine secure ([] : List ℝ) = 0 := by
  constructor
  · simp [genReqs]
  · cases secure <;> simp [combine]

/-- plain mode requests exactly one draw of the parameter's shape; secure mode one discarded `(1,1)`
draw followed by exactly four draws of the parameter's shape, all with the same std -/
theorem genReqs_shape (std : ℝ) (h : std ≠ 0) (shape : List Nat) :
    genReqs (fun x : ℝ => decide (x = 0)) std shape false = [⟨std, shape⟩] ∧
    genReqs (fun x : ℝ => decide (x = 0)) std shape true
      = [⟨std, [1, 1]⟩, ⟨std, shape⟩, ⟨std, shape⟩, ⟨std, shape⟩, ⟨std, shape⟩] := by
  simp [genReqs, h, List.replicate]

/-- one block = one `_generate_noise` per optimised parameter, all at `σ·C` -/
theorem addNoise_all_std (σ C : ℝ) (shapes : List (List Nat)) (secure : Bool) :
    ∀ r ∈ addNoiseReqs (fun x : ℝ => decide (x = 0)) σ C shapes secure, r.std = σ * C := by
  intro r hr
  simp only [addNoiseReqs, List.mem_flatMap] at hr
  obtain ⟨sh, _, hr⟩ := hr
  unfold genReqs at hr
  split at hr
  · simp at hr
  · split at hr
    · simp only [List.mem_cons, List.mem_replicate] at hr
      rcases hr with rfl | ⟨_, rfl⟩ <;> rfl
    · simp at hr; subst hr; rfl

open MeasureTheory ProbabilityTheory in
/-- **secure_mode_variance**: the secure-mode combination `(X₁+X₂+X₃+X₄)/2` of four independent
`N(0, v)` draws (law of the sum = 4-fold convolution) is again `N(0, v)`: same standard deviation as
the plain mode. -/
theorem secure_mode_variance (v : NNReal) :
    (((gaussianReal 0 v) ∗ (gaussianReal 0 v) ∗ (gaussianReal 0 v) ∗ (gaussianReal 0 v)).map (· / 2))
      = gaussianReal 0 v := by
  rw [gaussianReal_conv_gaussianReal, gaussianReal_conv_gaussianReal, gaussianReal_conv_gaussianReal,
    gaussianReal_map_div_const]
  congr 1
  · simp
  · ext
    simp only [NNReal.coe_div, NNReal.coe_add, NNReal.coe_mk]
    ring

/-- the value computed in secure mode is that combination -/
theorem combine_secure (d0 d1 d2 d3 d4 : ℝ) : combine true [d0, d1, d2, d3, d4] = (d1 + d2 + d3 + d4) / 2 := by
  simp [combine]

theorem combine_plain (d : ℝ) : combine false [d] = d := rfl

/-! ## Hook-based per-layer optimizer: the peeked skip signal is the current batch's -/

/-- **hook_noise_on_logical_batch_ends**: however far the splitting sampler runs ahead of the training loop (any
interleaving of `signal_skip_step` pushes and physical batches in which every batch's own signal was pushed before it runs),
the per-parameter hooks of `DistributedPerLayerOptimizer` draw noise on physical batch `i` iff the `i`-th pushed signal is
`False` – exactly on the batches that end a logical batch, once each. -/
theorem hook_noise_on_logical_batch_ends (ops : List Opacus.PeekQueue.Op) (h : Opacus.PeekQueue.ahead 0 ops = true) :
    (Opacus.PeekQueue.run ops).noised = ((Opacus.PeekQueue.pushed ops).take (Opacus.PeekQueue.batches ops)).map (!·) := by
  have := (Opacus.PeekQueue.run_from [] [] ops (by simpa using h)).1
  simpa [Opacus.PeekQueue.run] using this

/-- non-vacuity: two logical batches of 2 + 1 physical batches, the sampler two batches ahead -/
example : Opacus.PeekQueue.ahead 0 [.push true, .push false, .batch, .push false, .batch, .batch] = true ∧
    (Opacus.PeekQueue.run [.push true, .push false, .batch, .push false, .batch, .batch]).noised = [false, true, true] := by decide

/-! ## The tie to the source: the std every gradient-noise request is made with (`Generated/ReleaseArith.lean`) -/

set_option linter.unusedTactic false in
set_option linter.unreachableTactic false in
/-- the `std=` argument of `_generate_noise` as written in `DPOptimizer.add_noise` and in the distributed per-layer
optimizer's `_add_noise_parameter` (with the optimizer's own generator passed on – checked by the translator) is `σ·C`,
the std of every request of the model's `addNoiseReqs`; those two calls are the only gradient-noise sites under
`opacus/optimizers/` -/
theorem generated_noise_std_eq_model (σ C : ℝ) :
    Opacus.Generated.Release.flatStd σ C = σ * C ∧
    Opacus.Generated.Release.ddpPerLayerStd σ C = σ * C ∧
    Opacus.Generated.Release.gradNoiseSites = 2 ∧
    (∀ (shapes : List (List Nat)) (secure : Bool),
      ∀ r ∈ addNoiseReqs (fun x : ℝ => decide (x = 0)) σ C shapes secure, r.std = Opacus.Generated.Release.flatStd σ C) := by
  have h1 : Opacus.Generated.Release.flatStd σ C = σ * C := by
    unfold Opacus.Generated.Release.flatStd; first | rfl | (ring_nf; done) | (norm_num; ring_nf)
  have h2 : Opacus.Generated.Release.ddpPerLayerStd σ C = σ * C := by
    unfold Opacus.Generated.Release.ddpPerLayerStd; first | rfl | (ring_nf; done) | (norm_num; ring_nf)
  refine ⟨h1, h2, by decide, ?_⟩
  intro shapes secure r hr
  rw [h1]; exact addNoise_all_std σ C shapes secure r hr

end Opacus.C04
