import OpacusLean.Lemmas.MhaIndex
/-! # C14 — DPMultiheadAttention computes the same function as nn.MultiheadAttention -/
namespace Opacus.C14
open Opacus.Mha

/-- **head_split_merge_roundtrip**: `view(L, B·h, d).transpose(0,1)` followed by
`transpose(0,1).view(L, B, E)` is the identity (and conversely), for all sizes. -/
theorem head_split_merge_roundtrip {α T B h d} (x : Fin T → Fin B → Fin (h * d) → α)
    (y : Fin (B * h) → Fin T → Fin d → α) :
    mergeHeads (splitHeads x) = x ∧ splitHeads (mergeHeads y) = y :=
  ⟨mergeHeads_splitHeads x, splitHeads_mergeHeads y⟩

/-! ## witnesses over ℤ (replayed on the real code by the harness) -/

/-- scalar operations of the witnesses: one key only, so the softmax of a row is `[1]` -/
def wOps : Ops Int := ⟨-1000000, 1, fun _ _ _ => 1, fun x => x / 2⟩
def idLin (n : Nat) : Lin Int n n := ⟨fun i j => if i = j then 1 else 0, none⟩
/-- `embed_dim = 2`, `num_heads = 2`, identity projections, no biases -/
def wP : Params Int 2 1 2 2 0 := ⟨idLin 2, idLin 2, idLin 2, idLin 2, fun i => i.elim0, fun i => i.elim0⟩
def wQuery : Fin 1 → Fin 2 → Fin (2 * 1) → Int := fun _ _ _ => 1
def wKey : Fin 1 → Fin 1 → Fin 2 → Int := fun _ _ _ => 1
def wValue : Fin 1 → Fin 1 → Fin 2 → Int := fun _ _ e => e.val + 1

def outList {B L S2 : Nat} (r : Except Err (Out Int 1 2 (2 * 1) B 2 L S2)) : Option (List Int) :=
  match r with
  | .ok o => some [o.out 0 0 ⟨0, by omega⟩, o.out 0 0 ⟨1, by omega⟩, o.out 0 1 ⟨0, by omega⟩, o.out 0 1 ⟨1, by omega⟩]
  | .error _ => none

theorem batch_first_merge_counterexample :
    outList (forwardBF wOps ⟨.asCoded, .repaired, .repaired⟩ wP 0 wQuery wKey wValue .none .none) = some [1, 1, 2, 2]
    ∧ outList (.ok (specBF wOps wP 0 wQuery wKey wValue .none .none)) = some [1, 2, 1, 2]
    ∧ outList (forwardBF wOps ⟨.repaired, .repaired, .repaired⟩ wP 0 wQuery wKey wValue .none .none) = some [1, 2, 1, 2] := by
  decide

def isErr {α} (e : Err) (r : Except Err α) : Bool :=
  match r with
  | .error e' => e = e'
  | .ok _ => false

/-- **batch_first_mask_rejected_counterexample**: `batch_first=True`, B = 1, L = 2, S = 1: a 2-D
additive mask of the shape `(L, S)` that `nn.MultiheadAttention` requires is rejected by the
as-coded size check (it compares with `query.size(0) = B`); the repaired check accepts it. -/
theorem batch_first_mask_rejected_counterexample :
    isErr .maskSize2 (forwardBF wOps ⟨.repaired, .asCoded, .repaired⟩ wP 0 wQuery wKey wValue
        (SMask.toModel (Bh := 1 * 2) (.f2 (fun (_ : Fin 2) (_ : Fin 1) => (0 : Int)))) .none) = true
    ∧ outList (forwardBF wOps ⟨.repaired, .repaired, .repaired⟩ wP 0 wQuery wKey wValue
        (SMask.toModel (Bh := 1 * 2) (.f2 (fun (_ : Fin 2) (_ : Fin 1) => (0 : Int)))) .none) = some [1, 2, 1, 2] := by
  decide

end Opacus.C14
