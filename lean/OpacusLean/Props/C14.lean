import OpacusLean.Lemmas.MhaRefine
/-! # C14 — DPMultiheadAttention computes the same function as nn.MultiheadAttention -/
namespace Opacus.C14
open Opacus.Mha

/-- **head_split_merge_roundtrip**: `view(L, B·h, d).transpose(0,1)` followed by
`transpose(0,1).view(L, B, E)` is the identity (and conversely), for all sizes. -/
theorem head_split_merge_roundtrip {α T B h d} (x : Fin T → Fin B → Fin (h * d) → α)
    (y : Fin (B * h) → Fin T → Fin d → α) :
    mergeHeads (splitHeads x) = x ∧ splitHeads (mergeHeads y) = y :=
  ⟨mergeHeads_splitHeads x, splitHeads_mergeHeads y⟩

/-! ## refinement of the specification -/

section
variable {R : Type} [AddZeroClass R] [Mul R]

/-- **mha_refines_spec**, `batch_first=False`: for every number of heads `h`, head dimension `d`
(`embed_dim = h·d`), `kdim`, `vdim`, lengths `L S`, batch size `B`, with or without biases,
`add_bias_kv` (`nkv`), `add_zero_attn` (`nz`), every attention mask (2-D / 3-D, boolean / additive)
and key-padding mask of the shapes `nn.MultiheadAttention` accepts, every scalar structure with
`x + 0 = x`, and every choice of softmax / −∞ / scaling: the model of
`DPMultiheadAttention.forward` passes all its checks and returns exactly the specification's
output, averaged weights and pre-softmax scores.  (A floating key-padding mask needs the repaired
`kpmFloat` variant, see `kpm_float_rejected_counterexample`.) -/
theorem mha_refines_spec_seq_first {h d Kd Vd nkv B L S : Nat} (ops : Ops R) (vr : Variant)
    (P : Params R h d Kd Vd nkv) (nz : Nat) (query : Fin L → Fin B → Fin (h * d) → R)
    (key : Fin S → Fin B → Fin Kd → R) (value : Fin S → Fin B → Fin Vd → R)
    (m : SMask R (B * h) L S) (kp : SKpm R B S) (hv : kp.isAdd = true → vr.kpmFloat = .repaired) :
    forwardSF ops vr P nz query key value m.toModel kp.toModel
      = .ok (spec ops P nz query key value m kp) := by
  simp only [forwardSF, get₃_ofFn₃, checkMask_toModel, core_eq _ _ _ _ _ _ _ _ _ _ hv, bind,
    Except.bind, pure, Except.pure, spec, get₂_ofFn₂, mergeHeads_heads, avgWeights_heads]

/-- **mha_refines_spec**, `batch_first=True` with the repaired head merge and mask check -/
theorem mha_refines_spec_batch_first_repaired {h d Kd Vd nkv B L S : Nat} (ops : Ops R) (vr : Variant)
    (P : Params R h d Kd Vd nkv) (nz : Nat) (query : Fin B → Fin L → Fin (h * d) → R)
    (key : Fin B → Fin S → Fin Kd → R) (value : Fin B → Fin S → Fin Vd → R)
    (m : SMask R (B * h) L S) (kp : SKpm R B S) (hv : kp.isAdd = true → vr.kpmFloat = .repaired)
    (hm : vr.merge = .repaired) (hc : vr.maskCheck = .repaired) :
    forwardBF ops vr P nz query key value m.toModel kp.toModel
      = .ok (specBF ops P nz query key value m kp) := by
  have hq : transpose01 (scaleQ ops (lin3 P.q query)) = scaleQ ops (lin3 P.q (transpose01 query)) := rfl
  have hk : transpose01 (lin3 P.k key) = lin3 P.k (transpose01 key) := rfl
  have hvv : transpose01 (lin3 P.v value) = lin3 P.v (transpose01 value) := rfl
  simp only [forwardBF, hm, hc, get₃_ofFn₃, checkMask_toModel, hq, hk, hvv,
    core_eq _ _ _ _ _ _ _ _ _ _ hv, bind, Except.bind, pure, Except.pure, specBF, spec, get₂_ofFn₂,
    mergeHeads_heads, avgWeights_heads]
  rfl

/-- **avg_weights_eq**: in both layouts and for BOTH merge variants (the as-coded batch_first
merge only damages the output), the returned weights are the head average
`(Σ_head softmax(scores_{b,head})) / h` of the specification, and the pre-softmax scores are the
specification's. -/
theorem avg_weights_eq {h d Kd Vd nkv B L S : Nat} (ops : Ops R) (vr : Variant)
    (P : Params R h d Kd Vd nkv) (nz : Nat) (query : Fin B → Fin L → Fin (h * d) → R)
    (key : Fin B → Fin S → Fin Kd → R) (value : Fin B → Fin S → Fin Vd → R)
    (m : SMask R (B * h) L S) (kp : SKpm R B S) (hv : kp.isAdd = true → vr.kpmFloat = .repaired)
    (hc : vr.maskCheck = .repaired) :
    ∃ o, forwardBF ops vr P nz query key value m.toModel kp.toModel = .ok o
      ∧ o.w = (specBF ops P nz query key value m kp).w
      ∧ o.scores = (specBF ops P nz query key value m kp).scores
      ∧ ∀ b l s, o.w b l s = ops.divH (sumFin h (fun hd =>
          ops.softmax _ (o.scores (enc2 b hd) l) s)) := by
  have hq : transpose01 (scaleQ ops (lin3 P.q query)) = scaleQ ops (lin3 P.q (transpose01 query)) := rfl
  have hk : transpose01 (lin3 P.k key) = lin3 P.k (transpose01 key) := rfl
  have hvv : transpose01 (lin3 P.v value) = lin3 P.v (transpose01 value) := rfl
  simp only [forwardBF, hc, get₃_ofFn₃, checkMask_toModel, hq, hk, hvv,
    core_eq _ _ _ _ _ _ _ _ _ _ hv, bind, Except.bind, pure, Except.pure, specBF, spec, get₂_ofFn₂]
  refine ⟨_, rfl, ?_, rfl, ?_⟩
  · simp only [avgWeights_heads]
  · intro b l s
    simp only [specHead, get₂_ofFn₂, avgWeights, decL_enc2, decR_enc2]

end

/-! ## what the as-coded `batch_first` path still gets right (`_partial`) -/

/-- the as-coded merge `view(B, L, E)` of the `(B·h, L, d)` buffer, by flat index -/
theorem mergeHeadsBFCoded_apply {α L B h d} (y : Fin (B * h) → Fin L → Fin d → α) (b : Fin B)
    (l : Fin L) (e : Fin (h * d)) :
    mergeHeadsBFCoded y b l e = flat3 y ((enc2 (enc2 b l) e).cast (bf_shape L B h d).symm) := rfl

/-- **batch_first_merge_single_head_partial**: with one head the as-coded merge is the correct one -/
theorem batch_first_merge_single_head_partial {α L B d} (y : Fin (B * 1) → Fin L → Fin d → α) :
    mergeHeadsBFCoded y = transpose01 (mergeHeads y) := by
  funext b l e
  rw [mergeHeadsBFCoded_apply]
  simp only [transpose01]
  rw [mergeHeads_apply']
  have : (Fin.cast (bf_shape L B 1 d).symm (enc2 (enc2 b l) e))
      = enc2 (enc2 (enc2 b (decL e)) l) (decR e) := by
    apply Fin.ext
    have h0 : (decL e : Fin 1).val = 0 := by omega
    have he : e.val = (decR e : Fin d).val := by
      have := congrArg Fin.val (enc2_dec e)
      simp only [enc2, h0] at this
      omega
    simp only [enc2, Fin.val_cast, h0]
    rw [he]
    simp only [decR]
    ring
  rw [this, flat3_enc]

/-- **batch_first_merge_single_target_partial**: with target length 1 the as-coded merge is correct -/
theorem batch_first_merge_single_target_partial {α B h d} (y : Fin (B * h) → Fin 1 → Fin d → α) :
    mergeHeadsBFCoded y = transpose01 (mergeHeads y) := by
  funext b l e
  rw [mergeHeadsBFCoded_apply]
  simp only [transpose01]
  rw [mergeHeads_apply']
  have : (Fin.cast (bf_shape 1 B h d).symm (enc2 (enc2 b l) e))
      = enc2 (enc2 (enc2 b (decL e)) l) (decR e) := by
    apply Fin.ext
    have h0 : l.val = 0 := by omega
    have he := congrArg Fin.val (enc2_dec e)
    simp only [enc2] at he
    simp only [enc2, Fin.val_cast, h0]
    rw [← he]
    ring
  rw [this, flat3_enc]

section
variable {R : Type} [Add R] [Mul R] [Zero R]

/-- with a single head the whole as-coded `batch_first` forward is the repaired one -/
theorem batch_first_single_head_partial {d Kd Vd nkv B L S : Nat} (ops : Ops R) (mc kf : V)
    (P : Params R 1 d Kd Vd nkv) (nz : Nat) (query : Fin B → Fin L → Fin (1 * d) → R)
    (key : Fin B → Fin S → Fin Kd → R) (value : Fin B → Fin S → Fin Vd → R) (am : AttnMask R) (kp : Kpm R) :
    forwardBF ops ⟨.asCoded, mc, kf⟩ P nz query key value am kp
      = forwardBF ops ⟨.repaired, mc, kf⟩ P nz query key value am kp := by
  simp only [forwardBF, batch_first_merge_single_head_partial]

/-- **batch_first_mask_square_partial**: the as-coded size check compares with `(B, B)`; when
`L = S = B` that is the right check -/
theorem batch_first_mask_square_partial {h d Kd Vd nkv n : Nat} (ops : Ops R) (mg kf : V)
    (P : Params R h d Kd Vd nkv) (nz : Nat) (query : Fin n → Fin n → Fin (h * d) → R)
    (key : Fin n → Fin n → Fin Kd → R) (value : Fin n → Fin n → Fin Vd → R) (am : AttnMask R) (kp : Kpm R) :
    forwardBF ops ⟨mg, .asCoded, kf⟩ P nz query key value am kp
      = forwardBF ops ⟨mg, .repaired, kf⟩ P nz query key value am kp := rfl

/-- **mask_shape_rejected**: a 2-D mask whose shape is not `(L, S)` is rejected (as torch does) -/
theorem mask_shape_rejected {h d Kd Vd nkv B L S : Nat} (ops : Ops R) (vr : Variant)
    (P : Params R h d Kd Vd nkv) (nz : Nat) (query : Fin L → Fin B → Fin (h * d) → R)
    (key : Fin S → Fin B → Fin Kd → R) (value : Fin S → Fin B → Fin Vd → R) (kp : Kpm R)
    (r c : Nat) (hrc : ¬ (r = L ∧ c = S)) (vb : Fin r → Fin c → Bool) (vf : Fin r → Fin c → R) :
    forwardSF ops vr P nz query key value (.b2 r c vb) kp = .error .maskSize2
    ∧ forwardSF ops vr P nz query key value (.f2 r c vf) kp = .error .maskSize2 := by
  simp [forwardSF, checkMask, hrc, bind, Except.bind]

end

/-! ## witnesses over ℤ (replayed on the real code by the harness) -/

/-- scalar operations of the witnesses: one key only, so the softmax of a row is `[1]` -/
def wOps : Ops Int := ⟨-1000000, 1, fun _ _ _ => 1, fun x => x / 2⟩
def idLin (n : Nat) : Lin Int n n := ⟨fun i j => if i = j then 1 else 0, none⟩
/-- `embed_dim = 2`, `num_heads = 2`, identity projections, no biases -/
def wP : Params Int 2 1 2 2 0 := ⟨idLin 2, idLin 2, idLin 2, idLin 2, fun i => i.elim0, fun i => i.elim0⟩
def wQuery : Fin 1 → Fin 2 → Fin (2 * 1) → Int := fun _ _ _ => 1
def wKey : Fin 1 → Fin 1 → Fin 2 → Int := fun _ _ _ => 1
def wValue : Fin 1 → Fin 1 → Fin 2 → Int := fun _ _ e => e.val + 1

def outList {B L S2 : Nat} (r : Except Err (Out Int 1 2 (2 * 1) B 2 L S2)) : Option (List Int) :=
  match r with
  | .ok o => some [o.out 0 0 ⟨0, by omega⟩, o.out 0 0 ⟨1, by omega⟩, o.out 0 1 ⟨0, by omega⟩, o.out 0 1 ⟨1, by omega⟩]
  | .error _ => none

theorem batch_first_merge_counterexample :
    outList (forwardBF wOps ⟨.asCoded, .repaired, .repaired⟩ wP 0 wQuery wKey wValue .none .none) = some [1, 1, 2, 2]
    ∧ outList (.ok (specBF wOps wP 0 wQuery wKey wValue .none .none)) = some [1, 2, 1, 2]
    ∧ outList (forwardBF wOps ⟨.repaired, .repaired, .repaired⟩ wP 0 wQuery wKey wValue .none .none) = some [1, 2, 1, 2] := by
  decide

def isErr {α} (e : Err) (r : Except Err α) : Bool :=
  match r with
  | .error e' => e = e'
  | .ok _ => false

/-- **batch_first_mask_rejected_counterexample**: `batch_first=True`, B = 1, L = 2, S = 1: a 2-D
additive mask of the shape `(L, S)` that `nn.MultiheadAttention` requires is rejected by the
as-coded size check (it compares with `query.size(0) = B`); the repaired check accepts it. -/
theorem batch_first_mask_rejected_counterexample :
    isErr .maskSize2 (forwardBF wOps ⟨.repaired, .asCoded, .repaired⟩ wP 0 wQuery wKey wValue
        (SMask.toModel (Bh := 1 * 2) (.f2 (fun (_ : Fin 2) (_ : Fin 1) => (0 : Int)))) .none) = true
    ∧ outList (forwardBF wOps ⟨.repaired, .repaired, .repaired⟩ wP 0 wQuery wKey wValue
        (SMask.toModel (Bh := 1 * 2) (.f2 (fun (_ : Fin 2) (_ : Fin 1) => (0 : Int)))) .none) = some [1, 2, 1, 2] := by
  decide

/-- `embed_dim = 1`, one head, identity projections -/
def wP1 : Params Int 1 1 1 1 0 := ⟨idLin 1, idLin 1, idLin 1, idLin 1, fun i => i.elim0, fun i => i.elim0⟩

def isOk {α} (r : Except Err α) : Bool :=
  match r with
  | .ok _ => true
  | .error _ => false

/-- **kpm_float_rejected_counterexample**: L = 1, S = 2, B = 1: a floating (additive, here all-zero)
`key_padding_mask` of the shape `(B, S)` that `nn.MultiheadAttention` accepts raises in the as-coded
`masked_fill`; the repaired variant adds it. -/
theorem kpm_float_rejected_counterexample :
    isErr .kpmDtype (forwardSF (L := 1) (B := 1) (S := 2) wOps ⟨.repaired, .repaired, .asCoded⟩ wP1 0
      (fun _ _ _ => 1) (fun _ _ _ => 1) (fun s _ _ => s.val + 1) .none
      (SKpm.toModel (.add (fun (_ : Fin 1) (_ : Fin 2) => (0 : Int))))) = true
    ∧ isOk (forwardSF (L := 1) (B := 1) (S := 2) wOps ⟨.repaired, .repaired, .repaired⟩ wP1 0
      (fun _ _ _ => 1) (fun _ _ _ => 1) (fun s _ _ => s.val + 1) .none
      (SKpm.toModel (.add (fun (_ : Fin 1) (_ : Fin 2) => (0 : Int))))) = true := by
  decide

end Opacus.C14
