import OpacusLean.Model.Sched
import Mathlib.Algebra.Group.Basic
import Mathlib.Algebra.Order.Group.Nat
import Mathlib.Tactic.Ring
import Mathlib.Tactic.Linarith
import OpacusLean.Generated.Schedulers
import Mathlib.Algebra.Group.Defs
import Mathlib.Tactic.SplitIfs
/-! # C17 — noise and clipping schedules follow their closed forms and are what is used

All statements are over an arbitrary commutative monoid `R` (so they hold for ℝ, ℚ, …): the
closed forms are purely multiplicative.  The `Float` instance of the *same* definitions is what the
driver executes against the real schedulers. -/
namespace Opacus.C17
open Opacus.Sched

variable {R : Type} [CommMonoid R]

/-- `last_epoch` after construction (from −1) and `k` steps is `k` -/
theorem lastEpoch_iter (kd : Kind R) (σ : R) (k : Nat) :
    (iter k (construct kd σ)).2.lastEpoch = k ∧ (iter k (construct kd σ)).2.kind = kd := by
  induction k with
  | zero => simp [iter, construct, stepS]
  | succ n ih =>
    have : iter (n + 1) (construct kd σ) = stepS (iter n (construct kd σ)).1 (iter n (construct kd σ)).2 := by
      clear ih
      generalize construct kd σ = p
      induction n generalizing p with
      | zero => rfl
      | succ m ihm => simp only [iter] at ihm ⊢; exact ihm _
    rw [this]
    simp [stepS, ih.1, ih.2]

theorem iter_succ (p : R × Sched R) (n : Nat) : iter (n + 1) p = stepS (iter n p).1 (iter n p).2 := by
  induction n generalizing p with
  | zero => rfl
  | succ m ihm => simp only [iter] at ihm ⊢; exact ihm _

/-- constructing an exponential or step scheduler leaves the value unchanged -/
theorem construction_is_identity_exp (g σ : R) : (construct (.exp g) σ).1 = σ := by
  simp [construct, stepS, value]

theorem construction_is_identity_step (g σ : R) (s : Nat) : (construct (.step g s) σ).1 = σ := by
  simp [construct, stepS, value]

/-- Exponential: after `k` scheduler steps the live value is `σ₀·γᵏ` (k = 0 at construction) -/
theorem exp_closed_form (g σ : R) (k : Nat) : (iter k (construct (.exp g) σ)).1 = σ * g ^ k := by
  induction k with
  | zero => simp [iter, construction_is_identity_exp]
  | succ n ih =>
    obtain ⟨hl, hk⟩ := lastEpoch_iter (.exp g) σ n
    rw [iter_succ]
    simp only [stepS, hk, hl, value]
    have : ((n : Int) + 1 = 0) = False := by
      apply propext; constructor
      · intro h; omega
      · intro h; exact h.elim
    simp only [this, if_false, ih, pow_succ, mul_assoc]

/-- Step: after `k` scheduler steps the live value is `σ₀·γ^⌊k/step_size⌋` -/
theorem step_closed_form (g σ : R) (s : Nat) (_hs : 0 < s) (k : Nat) :
    (iter k (construct (.step g s) σ)).1 = σ * g ^ (k / s) := by
  induction k with
  | zero => simp [iter, construction_is_identity_step]
  | succ n ih =>
    obtain ⟨hl, hk⟩ := lastEpoch_iter (.step g s) σ n
    rw [iter_succ]
    simp only [stepS, hk, hl, value]
    have h0 : ¬ ((n : Int) + 1 = 0) := by omega
    have hmod : (((n : Int) + 1) % (s : Int) ≠ 0) ↔ ¬ (s ∣ n + 1) := by
      rw [Nat.dvd_iff_mod_eq_zero]
      constructor
      · intro h h'; apply h
        have : ((n + 1 : Nat) : Int) % (s : Int) = ((0 : Nat) : Int) := by rw [← h']; exact (Int.natCast_mod _ _).symm
        simpa using this
      · intro h h'; apply h
        have : (((n + 1) % s : Nat) : Int) = 0 := by rw [Int.natCast_mod]; simpa using h'
        exact_mod_cast this
    rw [Nat.succ_div]
    by_cases hd : s ∣ n + 1
    · have : ¬ ((n : Int) + 1 = 0 ∨ ((n : Int) + 1) % (s : Int) ≠ 0) := by
        rintro (h | h)
        · exact h0 h
        · exact (hmod.mp h) hd
      simp only [this, if_false, hd, if_true, ih, pow_succ]
      rw [mul_comm g, mul_assoc]
    · have : ((n : Int) + 1 = 0 ∨ ((n : Int) + 1) % (s : Int) ≠ 0) := Or.inr (hmod.mpr hd)
      simp only [this, if_true, hd, if_false, ih, Nat.add_zero]

/-- Lambda: after `k` scheduler steps the live value is `σ₀·f(k)`, whatever was written to the
live attribute in between (`base` is captured at construction) -/
theorem lambda_closed_form (σ : R) (f : Int → R) (k : Nat) :
    (iter k (construct (.lam σ f) σ)).1 = σ * f k := by
  cases k with
  | zero => simp [iter, construct, stepS, value]
  | succ n =>
    obtain ⟨hl, hk⟩ := lastEpoch_iter (.lam σ f) σ n
    rw [iter_succ]
    simp [stepS, hk, hl, value]

/-! ## The scheduled value is the one used -/

/-- live value of a knob after `n` steps of its (optional) scheduler -/
def liveAfter (live : R) (s : Option (Sched R)) (n : Nat) : R :=
  match s with
  | none => live
  | some sc => (iter n (live, sc)).1

def schedAfter (live : R) (s : Option (Sched R)) (n : Nat) : Option (Sched R) :=
  match s with
  | none => none
  | some sc => some (iter n (live, sc)).2

/-- the log entries produced by `ops` from a state in which `a` noise-scheduler steps and `b`
clip-scheduler steps have already been taken since `(σ₀, ns₀)`, `(c₀, cs₀)` -/
def expectedLog (σ0 : R) (ns0 : Option (Sched R)) (c0 : R) (cs0 : Option (Sched R)) :
    Nat → Nat → List Op → List (R × R × R)
  | _, _, [] => []
  | a, b, .noiseSched :: ops => expectedLog σ0 ns0 c0 cs0 (a + 1) b ops
  | a, b, .clipSched :: ops => expectedLog σ0 ns0 c0 cs0 a (b + 1) ops
  | a, b, .optStep :: ops =>
      (liveAfter c0 cs0 b, liveAfter σ0 ns0 a * liveAfter c0 cs0 b, liveAfter σ0 ns0 a)
        :: expectedLog σ0 ns0 c0 cs0 a b ops
  | a, b, .physStep :: ops => expectedLog σ0 ns0 c0 cs0 a b ops

/-- the bounds applied to the skipped physical batches (virtual steps) among `ops` -/
def expectedPhys (c0 : R) (cs0 : Option (Sched R)) : Nat → List Op → List R
  | _, [] => []
  | b, .clipSched :: ops => expectedPhys c0 cs0 (b + 1) ops
  | b, .physStep :: ops => liveAfter c0 cs0 b :: expectedPhys c0 cs0 b ops
  | b, .noiseSched :: ops => expectedPhys c0 cs0 b ops
  | b, .optStep :: ops => expectedPhys c0 cs0 b ops

theorem iter_add_one' (p : R × Sched R) (n : Nat) :
    stepS (iter n p).1 (iter n p).2 = iter (n + 1) p := (iter_succ p n).symm

/-- **scheduled_value_is_used**: under every interleaving of scheduler steps and logical optimizer
steps, the j-th logical step is clipped with, noised with (std = σ·C) and accounted at exactly the
values produced by the scheduler steps that precede it; and every skipped physical batch of a virtual
step is clipped with the bound in force when IT runs (not the one cached at the start of the logical batch). -/
theorem scheduled_value_is_used (σ0 c0 : R) (ns0 cs0 : Option (Sched R)) (ops : List Op)
    (a b : Nat) (lg : List (R × R × R)) (ph : List R) :
    (Eng.run ⟨liveAfter σ0 ns0 a, liveAfter c0 cs0 b, schedAfter σ0 ns0 a, schedAfter c0 cs0 b, lg, ph⟩ ops).log
      = lg ++ expectedLog σ0 ns0 c0 cs0 a b ops
    ∧ (Eng.run ⟨liveAfter σ0 ns0 a, liveAfter c0 cs0 b, schedAfter σ0 ns0 a, schedAfter c0 cs0 b, lg, ph⟩ ops).phys
      = ph ++ expectedPhys c0 cs0 b ops := by
  induction ops generalizing a b lg ph with
  | nil => simp [Eng.run, expectedLog, expectedPhys]
  | cons o ops ih =>
    cases o with
    | noiseSched =>
      simp only [Eng.run, List.foldl_cons, expectedLog, expectedPhys] at ih ⊢
      cases ns0 with
      | none => simpa [Eng.step, schedAfter, liveAfter] using ih (a + 1) b lg ph
      | some sc =>
        have := ih (a + 1) b lg ph
        simp only [liveAfter, schedAfter] at this ⊢
        simp only [Eng.step]
        rw [← iter_add_one'] at this
        exact this
    | clipSched =>
      simp only [Eng.run, List.foldl_cons, expectedLog, expectedPhys] at ih ⊢
      cases cs0 with
      | none => simpa [Eng.step, schedAfter, liveAfter] using ih a (b + 1) lg ph
      | some sc =>
        have := ih a (b + 1) lg ph
        simp only [liveAfter, schedAfter] at this ⊢
        simp only [Eng.step]
        rw [← iter_add_one'] at this
        exact this
    | optStep =>
      simp only [Eng.run, List.foldl_cons, expectedLog, expectedPhys, Eng.step] at ih ⊢
      obtain ⟨h1, h2⟩ := ih a b (lg ++ [(liveAfter c0 cs0 b, liveAfter σ0 ns0 a * liveAfter c0 cs0 b, liveAfter σ0 ns0 a)]) ph
      exact ⟨by rw [h1]; simp [List.append_assoc], h2⟩
    | physStep =>
      simp only [Eng.run, List.foldl_cons, expectedLog, expectedPhys, Eng.step] at ih ⊢
      obtain ⟨h1, h2⟩ := ih a b lg (ph ++ [liveAfter c0 cs0 b])
      exact ⟨h1, by rw [h2]; simp [List.append_assoc]⟩

/-- non-vacuity: a concrete interleaving with an exponential noise schedule (γ = 2 over ℕ) -/
example :
    (Eng.run (R := Nat) ⟨1, 5, some (construct (.exp 2) 1).2, none, [], []⟩
        [.optStep, .noiseSched, .optStep, .noiseSched, .noiseSched, .optStep]).log
      = [(5, 5, 1), (5, 10, 2), (5, 40, 8)] := by decide

/-- non-vacuity with virtual steps: a clip scheduler stepped BETWEEN the physical batches of one
logical batch (γ = 2 over ℕ): every physical batch is clipped with the bound in force when it runs -/
example :
    let e := Eng.run (R := Nat) ⟨1, 5, none, some (construct (.exp 2) 5).2, [], []⟩
        [.physStep, .clipSched, .physStep, .clipSched, .optStep]
    e.phys = [5, 10] ∧ e.log = [(20, 20, 1)] := by decide

/-! ## Save / restore (`state_dict` = `__dict__` minus the optimizer)

The scheduler's own state (`gamma`, `step_size`, `base`, `last_epoch`) is restored exactly, but the
*live* optimizer attribute is not part of any state_dict: a freshly built optimizer starts again from
its constructor value `σ₀`.  -/

/-- resume: fresh optimizer (live value `σ₀`), fresh scheduler constructed on it, then
`load_state_dict(saved)` replaces the scheduler's fields; the live value is whatever the fresh
construction left there. -/
def resume (kd : Kind R) (σ0 : R) (saved : Sched R) : R × Sched R :=
  ((construct kd σ0).1, saved)

/-- Lambda schedules: from the first scheduler step after the restore on, the trajectory is that of
the uninterrupted run (save after `k` steps, then `j+1` more). -/
theorem lambda_resume_continues (σ : R) (f : Int → R) (k j : Nat) :
    (iter (j + 1) (resume (.lam σ f) σ (iter k (construct (.lam σ f) σ)).2)).1
      = (iter (k + j + 1) (construct (.lam σ f) σ)).1 := by
  have hR : ∀ j, (iter j (resume (.lam σ f) σ (iter k (construct (.lam σ f) σ)).2)).2.lastEpoch = k + j
      ∧ (iter j (resume (.lam σ f) σ (iter k (construct (.lam σ f) σ)).2)).2.kind = .lam σ f := by
    intro j
    induction j with
    | zero => simpa [iter, resume] using lastEpoch_iter (.lam σ f) σ k
    | succ n ih => rw [iter_succ]; simp [stepS, ih.1, ih.2]; omega
  rw [iter_succ, show k + j + 1 = (k + j) + 1 from rfl, iter_succ]
  obtain ⟨h1, h2⟩ := hR j
  obtain ⟨h3, h4⟩ := lastEpoch_iter (.lam σ f) σ (k + j)
  simp [stepS, h1, h2, h3, h4, value]

/-- … but the value *in force immediately after* the restore is the fresh `σ₀·f(0)`, not `σ₀·f(k)`;
and Exponential / Step schedules never recover (known finding D8).  Witness over ℕ: σ₀ = 1, γ = 2,
checkpoint after 2 steps, one more step: uninterrupted 8, resumed 2. -/
theorem exp_resume_counterexample :
    (iter 1 (resume (.exp 2) (1 : Nat) (iter 2 (construct (.exp 2) 1)).2)).1 = 2 ∧
    (iter 3 (construct (.exp 2) (1 : Nat))).1 = 8 := by decide

/-- The repaired behaviour (live value checkpointed alongside): resuming from the saved pair is the
uninterrupted run, for every schedule kind. -/
theorem resume_with_live_value (p : R × Sched R) (k j : Nat) :
    iter j (iter k p) = iter (k + j) p := by
  induction j with
  | zero => rfl
  | succ n ih => rw [iter_succ, ih, ← iter_succ]; rfl

/-! ## The tie to the source: definitions regenerated from `opacus/schedulers/*.py` on every run -/
section generated
open Opacus.Generated.Sched
variable {R : Type} [CommSemigroup R]

/-- closes `generated = model` goals up to harmless rewrites of the source (operand order of a commutative
product, an equivalent way of writing the condition, swapped branches) -/
macro "gen_eq" : tactic =>
  `(tactic| first
    | rfl
    | (simp only [noiseGetExp, clipGetExp, noiseGetStep, clipGetStep, noiseGetLam, clipGetLam, noiseBaseStep, clipBaseStep,
          noiseBaseInit, clipBaseInit, noiseConstructExp, clipConstructExp, noiseConstructStep, clipConstructStep,
          noiseConstructLam, clipConstructLam, value, stepS, construct]
       split_ifs <;> first | rfl | (simp_all [mul_comm]; done) | (exfalso; simp_all; done) | (exfalso; omega)))

/-- the getters translated from the source are the model's `value` -/
theorem generated_getters_eq_model (live g b : R) (s : Nat) (f : Int → R) (e : Int) :
    noiseGetExp live g b s f e = value (.exp g) e live ∧ clipGetExp live g b s f e = value (.exp g) e live ∧
    noiseGetStep live g b s f e = value (.step g s) e live ∧ clipGetStep live g b s f e = value (.step g s) e live ∧
    noiseGetLam live g b s f e = value (.lam b f) e live ∧ clipGetLam live g b s f e = value (.lam b f) e live := by
  refine ⟨?_, ?_, ?_, ?_, ?_, ?_⟩ <;> gen_eq

/-- the translated base-class `step()` is the model's `stepS` -/
theorem generated_step_eq_model (k : Kind R) (live : R) (e : Int) :
    noiseBaseStep (fun e l => value k e l) live e = ((stepS live ⟨k, e⟩).1, (stepS live ⟨k, e⟩).2.lastEpoch) ∧
    clipBaseStep (fun e l => value k e l) live e = ((stepS live ⟨k, e⟩).1, (stepS live ⟨k, e⟩).2.lastEpoch) := by
  refine ⟨?_, ?_⟩ <;> gen_eq

/-- the translated constructors are the model's `construct`: `last_epoch` as given (default −1), one `step()`,
and `Lambda*` captures its base BEFORE that first step -/
theorem generated_construct_eq_model (g : R) (s : Nat) (f : Int → R) (live : R) (e0 : Int) :
    noiseConstructExp g s f live e0 = ((construct (.exp g) live e0).1, (construct (.exp g) live e0).2.lastEpoch, live) ∧
    clipConstructExp g s f live e0 = ((construct (.exp g) live e0).1, (construct (.exp g) live e0).2.lastEpoch, live) ∧
    noiseConstructStep g s f live e0 = ((construct (.step g s) live e0).1, (construct (.step g s) live e0).2.lastEpoch, live) ∧
    clipConstructStep g s f live e0 = ((construct (.step g s) live e0).1, (construct (.step g s) live e0).2.lastEpoch, live) ∧
    noiseConstructLam g s f live e0 = ((construct (.lam live f) live e0).1, (construct (.lam live f) live e0).2.lastEpoch, live) ∧
    clipConstructLam g s f live e0 = ((construct (.lam live f) live e0).1, (construct (.lam live f) live e0).2.lastEpoch, live) := by
  refine ⟨?_, ?_, ?_, ?_, ?_, ?_⟩ <;> gen_eq

theorem generated_default_last_epoch : noiseDefaultLastEpoch = -1 ∧ clipDefaultLastEpoch = -1 := ⟨rfl, rfl⟩

end generated
end Opacus.C17
