import OpacusLean.Generated.FloatBookkeeping
import OpacusLean.Generated.CalibLoops
import OpacusLean.Model.Calib
import OpacusLean.Model.Binary64
import OpacusLean.Lemmas.Binary64Steps
import OpacusLean.Lemmas.Calib
import Mathlib.Order.Basic
import Mathlib.Algebra.Order.Field.Basic
import Mathlib.Tactic.Linarith
import Mathlib.Tactic.Positivity
import Mathlib.Tactic.FieldSimp
import Mathlib.Tactic.Ring
/-! # C08 — calibrated noise never overshoots the requested budget

* `bisection_invariant` (any preorder, ANY accountant function), `bisection_invariant_le`;
* `doubling_guard`, `doubling_terminates`, `bisection_terminates(_lipschitz)`, `terminates`;
* `steps_trunc_bounds` (every rounding with relative error 2^-53) and `steps_trunc_bounds_model`
  (the executable exact-binary64 model): the truncations lose at most one step, never gain;
* `steps_consistent_iff`, `calibration_sound_partial` (the end-to-end statement under the consistency
  condition), `calibration_sound_repaired`;
* `overshoot_witnesses`: kernel-evaluated on Lean's own `Float` and on the model — the condition
  fails as coded (finding D14). -/
set_option linter.unusedSectionVars false
namespace Opacus.C08
open Opacus.Calib

section anyOrder
variable {R : Type} [Add R] [Sub R] [Mul R] [Div R] [Preorder R] [DecidableLT R] [OfNat R 2]

/-- **bisection_invariant** — for ANY accountant function `eps` (no monotonicity, no continuity),
any fuel, any starting bracket: whenever `get_noise_multiplier` returns `σ`, the accountant's
answer at that very `σ` is not above the target and not more than the tolerance below it. -/
theorem bisection_invariant (eps : R → R) (target tol maxSigma inf lo0 hi0 : R) (fuelD fuelB : Nat) (σ : R)
    (hinf : target < inf)
    (h : (getNoiseMultiplier eps target tol maxSigma inf lo0 hi0 fuelD fuelB).res = .ok σ) :
    ¬ target < eps σ ∧ ¬ tol < target - eps σ := by
  unfold getNoiseMultiplier at h
  split at h
  · rename_i hi epsHi log hd
    obtain ⟨h1, h2⟩ := doubling_done eps target maxSigma fuelD hi0 inf [] hi epsHi log (Or.inr hinf) hd
    exact bisect_ok eps target tol fuelB lo0 hi epsHi log σ h1 h2 h
  · cases h
  · cases h

end anyOrder


section linear
variable {R : Type} [Add R] [Sub R] [Mul R] [Div R] [LinearOrder R] [OfNat R 2]

/-- `bisection_invariant` read in a linear order: `target − tol ≤ eps σ ≤ target` in the form the
code tests it -/
theorem bisection_invariant_le (eps : R → R) (target tol maxSigma inf lo0 hi0 : R) (fuelD fuelB : Nat) (σ : R)
    (hinf : target < inf)
    (h : (getNoiseMultiplier eps target tol maxSigma inf lo0 hi0 fuelD fuelB).res = .ok σ) :
    eps σ ≤ target ∧ target - eps σ ≤ tol := by
  obtain ⟨a, b⟩ := bisection_invariant eps target tol maxSigma inf lo0 hi0 fuelD fuelB σ hinf h
  exact ⟨not_lt.1 a, not_lt.1 b⟩

end linear

section field
variable {R : Type} [Field R] [LinearOrder R] [IsStrictOrderedRing R]

/-- **doubling_guard** — `get_noise_multiplier` never returns a σ above `MAX_SIGMA` (nor below the
low end of the initial bracket); if the accountant stays above the target on the whole admissible
range the call cannot succeed (it raises "The privacy budget is too low", or runs out of fuel). -/
theorem doubling_guard (eps : R → R) (target tol maxSigma inf lo0 hi0 : R) (fuelD fuelB : Nat) (σ : R)
    (hinf : target < inf) (h0 : 0 ≤ hi0) (hlo : lo0 ≤ hi0)
    (h : (getNoiseMultiplier eps target tol maxSigma inf lo0 hi0 fuelD fuelB).res = .ok σ) :
    lo0 ≤ σ ∧ σ ≤ maxSigma := by
  unfold getNoiseMultiplier at h
  split at h
  · rename_i hi epsHi log hd
    obtain ⟨h1, h2⟩ := doubling_le eps target maxSigma fuelD hi0 inf [] hi epsHi log h0 (Or.inl hinf) hd
    obtain ⟨h3, h4⟩ := bisect_range eps target tol fuelB lo0 hi epsHi log σ (le_trans hlo h2) h
    exact ⟨h3, le_trans h4 h1⟩
  · cases h
  · cases h

/-- the first loop needs at most `n + 1` iterations when `MAX_SIGMA < 2^n · sigma_high₀`
(real code: `10·2^17 = 1310720 > 10^6`, so 18) -/
theorem doubling_terminates (eps : R → R) (target maxSigma : R) :
    ∀ (n fuel : Nat) (hi epsHi : R) (log : List R), 0 < hi → maxSigma < 2 ^ n * hi → n + 1 ≤ fuel →
      ∀ l, doubling eps target maxSigma fuel hi epsHi log ≠ .outOfFuel l := by
  intro n
  induction n with
  | zero =>
    intro fuel hi epsHi log hpos hmax hf l
    obtain ⟨f, rfl⟩ : ∃ f, fuel = f + 1 := ⟨fuel - 1, by omega⟩
    unfold doubling
    split
    · simp only
      have : maxSigma < 2 * hi := by simp at hmax; linarith
      simp [this]
    · simp
  | succ n ih =>
    intro fuel hi epsHi log hpos hmax hf l
    obtain ⟨f, rfl⟩ : ∃ f, fuel = f + 1 := ⟨fuel - 1, by omega⟩
    unfold doubling
    split
    · simp only
      split
      · simp
      · apply ih
        · linarith
        · rw [pow_succ] at hmax; linarith
        · omega
    · simp

/-- **bisection_terminates** — local modulus of continuity at the target level: if any two points
of the bracket that straddle the target and are `δ`-close have the upper one within `tol` of the
target, then `n` halvings suffice once `hi − lo ≤ 2^n · δ`.  No monotonicity is needed. -/
theorem bisection_terminates (eps : R → R) (target tol δ lo0 hi0 : R)
    (hmod : ∀ a b, lo0 ≤ a → a ≤ b → b ≤ hi0 → b - a ≤ δ → ¬ eps a < target → ¬ target < eps b →
      target - eps b ≤ tol) :
    ∀ (n fuel : Nat) (lo hi epsHi : R) (log : List R), lo0 ≤ lo → lo ≤ hi → hi ≤ hi0 →
      epsHi = eps hi → ¬ target < epsHi → ¬ eps lo < target → hi - lo ≤ 2 ^ n * δ → n ≤ fuel →
      (bisect eps target tol fuel lo hi epsHi log).res ≠ .outOfFuel := by
  intro n
  induction n with
  | zero =>
    intro fuel lo hi epsHi log h1 h2 h3 he hh hl hw hf
    have hstop : ¬ tol < target - epsHi := by
      rw [he] at hh ⊢
      exact not_lt.2 (hmod lo hi h1 h2 h3 (by simpa using hw) hl hh)
    cases fuel <;> (unfold bisect; simp [hstop])
  | succ n ih =>
    intro fuel lo hi epsHi log h1 h2 h3 he hh hl hw hf
    obtain ⟨f, rfl⟩ : ∃ f, fuel = f + 1 := ⟨fuel - 1, by omega⟩
    unfold bisect
    split
    · simp only
      have hm1 : lo ≤ (lo + hi) / 2 := by linarith
      have hm2 : (lo + hi) / 2 ≤ hi := by linarith
      have hw' : (2 : R) ^ (n + 1) * δ = 2 * (2 ^ n * δ) := by rw [pow_succ]; ring
      split
      · rename_i hlt
        exact ih f lo _ _ _ h1 hm1 (le_trans hm2 h3) rfl (lt_asymm hlt) hl (by linarith) (by omega)
      · rename_i hnl
        exact ih f _ hi _ _ (le_trans h1 hm1) hm2 h3 he hh hnl (by linarith) (by omega)
    · simp

/-- Lipschitz corollary: `eps a − eps b ≤ K·(b − a)` on the bracket gives the modulus `δ = tol/K` -/
theorem bisection_terminates_lipschitz (eps : R → R) (target tol K lo0 hi0 : R) (hK : 0 < K)
    (hlip : ∀ a b, lo0 ≤ a → a ≤ b → b ≤ hi0 → eps a - eps b ≤ K * (b - a))
    (n fuel : Nat) (epsHi : R) (log : List R) (hle : lo0 ≤ hi0)
    (he : epsHi = eps hi0) (hh : ¬ target < epsHi) (hl : ¬ eps lo0 < target)
    (hw : hi0 - lo0 ≤ 2 ^ n * (tol / K)) (hf : n ≤ fuel) :
    (bisect eps target tol fuel lo0 hi0 epsHi log).res ≠ .outOfFuel := by
  refine bisection_terminates eps target tol (tol / K) lo0 hi0 ?_ n fuel lo0 hi0 epsHi log
    (le_refl _) hle (le_refl _) he hh hl hw hf
  intro a b h1 h2 h3 h4 h5 _
  have := hlip a b h1 h2 h3
  have h6 : K * (b - a) ≤ K * (tol / K) := mul_le_mul_of_nonneg_left h4 hK.le
  have h7 : K * (tol / K) = tol := by field_simp
  have h8 : target ≤ eps a := not_lt.1 h5
  linarith

/-- **termination** of the whole routine with an explicit fuel bound -/
theorem terminates (eps : R → R) (target tol maxSigma inf lo0 hi0 δ : R) (nD nB fuelD fuelB : Nat)
    (hinf : target < inf) (h0 : 0 < hi0) (hlo : lo0 ≤ hi0)
    (hmax : maxSigma < 2 ^ nD * hi0) (hfD : nD + 1 ≤ fuelD)
    (hl : ¬ eps lo0 < target)
    (hmod : ∀ a b, lo0 ≤ a → a ≤ b → b ≤ maxSigma → b - a ≤ δ → ¬ eps a < target → ¬ target < eps b →
      target - eps b ≤ tol)
    (hw : maxSigma - lo0 ≤ 2 ^ nB * δ) (hfB : nB ≤ fuelB) :
    (getNoiseMultiplier eps target tol maxSigma inf lo0 hi0 fuelD fuelB).res ≠ .outOfFuel := by
  unfold getNoiseMultiplier
  split
  · rename_i hi epsHi log hd
    obtain ⟨h1, h2⟩ := doubling_le eps target maxSigma fuelD hi0 inf [] hi epsHi log h0.le (Or.inl hinf) hd
    have hdd := doubling_done eps target maxSigma fuelD hi0 inf [] hi epsHi log (Or.inr hinf) hd
    exact bisection_terminates eps target tol δ lo0 maxSigma hmod nB fuelB lo0 hi epsHi log (le_refl _)
      (le_trans hlo h2) h1 hdd.1 hdd.2 hl (by linarith) hfB
  · simp
  · rename_i log hd
    exact absurd hd (doubling_terminates eps target maxSigma nD fuelD hi0 inf [] h0 hmax hfD log)

end field

/-! ## Step and rate bookkeeping in exact binary64 -/
section steps
open Opacus.Binary64

/-- **steps_trunc_bounds** — for EVERY rounding function with relative error `2^-53` (the IEEE
contract; monotonicity and exactness are not even needed) and `epochs·L < 2^51`:
`int(1/(1/L)) ∈ {L−1, L}` and `int(epochs/(1/L)) ∈ {epochs·L−1, epochs·L}`.  The truncations can
lose one step, never gain one. -/
theorem steps_trunc_bounds (fl : ℚ → ℚ) (hfl : ∀ x, 0 < x → RelClose (fl x) x)
    (E L : ℕ) (hE : 0 < E) (hL : 0 < L) (h : E * L < 2 ^ 51) (hL51 : L < 2 ^ 51) :
    (⌊fl (1 / fl (1 / L))⌋₊ = L ∨ ⌊fl (1 / fl (1 / L))⌋₊ + 1 = L) ∧
    (⌊fl (E / fl (1 / L))⌋₊ = E * L ∨ ⌊fl (E / fl (1 / L))⌋₊ + 1 = E * L) := by
  have hL' : (0 : ℚ) < L := by exact_mod_cast hL
  have hq := hfl (1 / L) (by positivity)
  have hqpos : 0 < fl (1 / L) := hq.pos (by positivity)
  constructor
  · have hs := hfl (1 / fl (1 / L)) (by positivity)
    have := floor_of_relclose 1 L hL _ _ hq (by simpa using hs) (by simpa using hL51)
    simpa using this
  · have hE' : (0 : ℚ) < E := by exact_mod_cast hE
    have hs := hfl (E / fl (1 / L)) (by positivity)
    exact floor_of_relclose E L hL _ _ hq hs h

/-- the same for the executable exact-binary64 model (whose rounding satisfies the contract:
`Binary64.rne_rel_error`), including `epochs = 0` -/
theorem steps_trunc_bounds_model (E L : ℕ) (hL : 0 < L) (hE : E < 2 ^ 53) (h : E * L < 2 ^ 51) (hL51 : L < 2 ^ 51) :
    (lenDP .asCoded L = L ∨ lenDP .asCoded L + 1 = L) ∧
    (stepsCal .asCoded E L = E * L ∨ stepsCal .asCoded E L + 1 = E * L) ∧
    stepsTrain .asCoded E L ≤ E * L :=
  ⟨lenDP_bounds L hL hL51, stepsCal_bounds E L hL hE h, by
    unfold stepsTrain
    rcases lenDP_bounds L hL hL51 with h1 | h1
    · rw [h1]
    · exact Nat.mul_le_mul_left E (by omega)⟩

/-- **steps_consistent_iff** — calibration `(q, steps)` and training `(q, steps)` coincide iff the
DP loader kept its length and the calibration step count was not truncated -/
theorem steps_consistent_iff (E L : ℕ) (hL : 0 < L) (hL51 : L < 2 ^ 51) :
    (qAcc .asCoded L = qSampler L ∧ stepsTrain .asCoded E L = stepsCal .asCoded E L) ↔
    (lenDP .asCoded L = L ∧ stepsCal .asCoded E L = E * L) := by
  rw [qAcc_eq_iff L hL hL51]
  constructor
  · rintro ⟨h1, h2⟩
    refine ⟨h1, ?_⟩
    rw [← h2, stepsTrain, h1]
  · rintro ⟨h1, h2⟩
    refine ⟨h1, ?_⟩
    rw [h2, stepsTrain, h1]

/-- on a tree that carries the integer `len(data_loader)` through, they always coincide -/
theorem steps_consistent_repaired (E L : ℕ) :
    qAcc .repaired L = qSampler L ∧ stepsTrain .repaired E L = stepsCal .repaired E L := by
  simp [qAcc, qSampler, lenDP, stepsTrain, stepsCal]

/-- **calibration_sound_partial** — the end-to-end statement of C08 under the consistency
condition: if the DP loader kept its length and the calibration step count is `epochs·L`, then the
σ returned by the calibration, accounted at the rate and for the number of steps training really
uses, does not exceed the target (for ANY accountant `epsAt σ q steps`).
Full statement (no hypothesis `hc`) is false as coded: `overshoot_witnesses`. -/
theorem calibration_sound_partial {R : Type} [Add R] [Sub R] [Mul R] [Div R] [Preorder R] [DecidableLT R] [OfNat R 2]
    (epsAt : R → B64 → ℕ → R) (target tol maxSigma inf lo0 hi0 : R) (fuelD fuelB : Nat) (σ : R)
    (E L : ℕ) (hL : 0 < L) (hL51 : L < 2 ^ 51) (hinf : target < inf)
    (hc : lenDP .asCoded L = L ∧ stepsCal .asCoded E L = E * L)
    (h : (getNoiseMultiplier (fun s => epsAt s (qSampler L) (stepsCal .asCoded E L)) target tol maxSigma inf lo0 hi0 fuelD fuelB).res = .ok σ) :
    ¬ target < epsAt σ (qAcc .asCoded L) (stepsTrain .asCoded E L) := by
  obtain ⟨h1, h2⟩ := (steps_consistent_iff E L hL hL51).2 hc
  rw [h1, h2]
  exact (bisection_invariant _ target tol maxSigma inf lo0 hi0 fuelD fuelB σ hinf h).1

/-- … and unconditionally on the repaired tree -/
theorem calibration_sound_repaired {R : Type} [Add R] [Sub R] [Mul R] [Div R] [Preorder R] [DecidableLT R] [OfNat R 2]
    (epsAt : R → B64 → ℕ → R) (target tol maxSigma inf lo0 hi0 : R) (fuelD fuelB : Nat) (σ : R)
    (E L : ℕ) (hinf : target < inf)
    (h : (getNoiseMultiplier (fun s => epsAt s (qSampler L) (stepsCal .repaired E L)) target tol maxSigma inf lo0 hi0 fuelD fuelB).res = .ok σ) :
    ¬ target < epsAt σ (qAcc .repaired L) (stepsTrain .repaired E L) := by
  obtain ⟨h1, h2⟩ := steps_consistent_repaired E L
  rw [h1, h2]
  exact (bisection_invariant _ target tol maxSigma inf lo0 hi0 fuelD fuelB σ hinf h).1

/-- **overshoot_witnesses** — evaluated by the kernel on Lean's own `Float` (hardware binary64) and
on the exact model: a loader of length 93 becomes a DP loader of length 92, and 3 epochs over a
loader of length 75 are calibrated as 224 steps while training takes 225. -/
theorem overshoot_witnesses :
    lenDPFloat 93 = 92 ∧ lenDP .asCoded 93 = 92 ∧
    stepsCalFloat 3 75 = 224 ∧ stepsCal .asCoded 3 75 = 224 ∧ stepsTrain .asCoded 3 75 = 225 ∧
    qAcc .asCoded 93 ≠ qSampler 93 ∧ toBits (qSampler 93) = qSamplerFloatBits 93 := by
  decide +kernel

/-- the exact model and Lean's `Float` agree on `int(1/(1/L))` and on the bits of `1/L` for every
`1 ≤ L ≤ 250`, and on `int(E/(1/L))` for `E ≤ 5`, `L ≤ 80` (kernel evaluation) -/
theorem model_agrees_with_float :
    (∀ L ∈ List.range' 1 250, lenDPFloat L = lenDP .asCoded L ∧ toBits (qSampler L) = qSamplerFloatBits L) ∧
    (∀ E ∈ List.range 6, ∀ L ∈ List.range' 1 80, stepsCalFloat E L = stepsCal .asCoded E L) := by
  decide +kernel

/-- non-vacuity of `bisection_invariant` / `doubling_guard` / `terminates`: a concrete run over ℚ
(`eps σ = 45/σ`, target 3, tolerance 1/100) that doubles once, bisects nine times and returns
`1925/128`, where `eps = 2.9922…`; and one that raises -/
example : (getNoiseMultiplier (fun s : ℚ => 45 / s) 3 (1 / 100) 1000000 (10 ^ 9) 0 10 18 40).res = .ok (1925 / 128) := by
  decide +kernel
example : (getNoiseMultiplier (fun _ : ℚ => 4) 3 (1 / 100) 1000000 (10 ^ 9) 0 10 18 40).res = .budgetTooLow := by
  decide +kernel

/-- non-vacuity of the consistency condition and of its failure -/
example : lenDP .asCoded 100 = 100 ∧ stepsCal .asCoded 2 100 = 200 := by decide +kernel
example : ¬ (lenDP .asCoded 93 = 93) := by decide +kernel

end steps

/-! ## The tie to the source: float bookkeeping re-translated on every run -/
section generatedTie
open Opacus.Binary64 Opacus.Generated.Float
/-- the tie to the source: the float bookkeeping of `make_private`, `make_private_with_epsilon`,
`get_noise_multiplier` and the two Poisson samplers, re-translated on every run into exact binary64 operations, is
the model's `qSampler`, `lenDP`, `qAcc`, `stepsCal`, `ebs`, `ebsDist` (as-coded variant) -/
theorem generated_bookkeeping_eq_model (N L W epochs : Nat) (v : Variant) :
    sampleRateWithEpsilon L = qSampler L ∧
    samplerSteps (sampleRateWithEpsilon L) = lenDP .asCoded L ∧
    distSamplerSteps (sampleRateWithEpsilon L) = lenDP .asCoded L ∧
    sampleRate (lenDP v L) = qAcc v L ∧
    calibSteps epochs (sampleRateWithEpsilon L) = stepsCal .asCoded epochs L ∧
    expectedBatchSize N (sampleRate (lenDP v L)) = ebs v N L ∧
    expectedBatchSizeDist (ebs v N L) W = ebsDist v N L W ∧
    loaderSampleRate L = qSampler L :=
  ⟨rfl, rfl, rfl, rfl, rfl, rfl, rfl, rfl⟩

end generatedTie

/-! ## The tie to the source: one iteration of each `while` loop of `get_noise_multiplier`, re-translated on every run -/

set_option linter.unusedTactic false in
set_option linter.unreachableTactic false in
/-- the model's `doubling` and `bisect` (the loops `calibration_sound_*` and the termination theorems are about) unfold to
exactly the iterations written in the source (`Generated/CalibLoops.lean`: guard, arithmetic, the ε query and its position
before the `MAX_SIGMA` test, which variables a branch updates), started from `sigma_low, sigma_high = 0, 10`, returning
`sigma_high` -/
theorem generated_calibration_loops_eq_model (eps : ℝ → ℝ) (target tol maxSigma : ℝ) (fuel : ℕ) (lo hi epsHi : ℝ)
    (log : List ℝ) :
    doubling eps target maxSigma (fuel + 1) hi epsHi log
      = Opacus.Generated.Calib.growIter eps target maxSigma hi epsHi log
          (fun l => Dbl.done hi epsHi l) (fun l => Dbl.budgetTooLow l)
          (fun h e l => doubling eps target maxSigma fuel h e l) ∧
    bisect eps target tol (fuel + 1) lo hi epsHi log
      = Opacus.Generated.Calib.bisectIter eps target tol lo hi epsHi log
          (fun l => (⟨.ok hi, l⟩ : Out ℝ)) (fun a b c l => bisect eps target tol fuel a b c l) ∧
    Opacus.Generated.Calib.initLow = 0 ∧ Opacus.Generated.Calib.initHigh = 10 ∧
    Opacus.Generated.Calib.returned = "sigma_high" := by
  refine ⟨?_, ?_, by decide, by decide, by decide⟩
  · first
    | rfl
    | (simp only [doubling, Opacus.Generated.Calib.growIter, gt_iff_lt]; done)
    | (simp only [doubling, Opacus.Generated.Calib.growIter, gt_iff_lt]; ring_nf; done)
    | (simp only [doubling, Opacus.Generated.Calib.growIter, gt_iff_lt, ge_iff_le]
       split_ifs <;> first | rfl | (congr 1 <;> ring_nf) | simp_all | (exfalso; linarith))
  · first
    | rfl
    | (simp only [bisect, Opacus.Generated.Calib.bisectIter, gt_iff_lt]; done)
    | (simp only [bisect, Opacus.Generated.Calib.bisectIter, gt_iff_lt]; ring_nf; done)
    | (simp only [bisect, Opacus.Generated.Calib.bisectIter, gt_iff_lt, ge_iff_le]
       split_ifs <;> first | rfl | (congr 1 <;> ring_nf) | simp_all | (exfalso; linarith))

end Opacus.C08
