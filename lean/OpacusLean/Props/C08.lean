import OpacusLean.Model.Calib
import OpacusLean.Model.Binary64
import Mathlib.Order.Basic
/-! # C08 — calibrated noise never overshoots the requested budget -/
set_option linter.unusedSectionVars false
namespace Opacus.C08
open Opacus.Calib

section anyOrder
variable {R : Type} [Add R] [Sub R] [Mul R] [Div R] [Preorder R] [DecidableLT R] [OfNat R 2]

/-- second loop: if it is entered with `eps_high = eps sigma_high ≤ target` then whatever it returns
satisfies both exit conditions *at the returned σ* -/
theorem bisect_ok (eps : R → R) (target tol : R) :
    ∀ (fuel : Nat) (lo hi epsHi : R) (log : List R) (σ : R),
      epsHi = eps hi → ¬ target < epsHi →
      (bisect eps target tol fuel lo hi epsHi log).res = .ok σ →
      ¬ target < eps σ ∧ ¬ tol < target - eps σ := by
  intro fuel
  induction fuel with
  | zero =>
    intro lo hi epsHi log σ h1 h2 h
    unfold bisect at h
    split at h
    · cases h
    · injection h with h; subst h; subst h1; exact ⟨h2, by assumption⟩
  | succ n ih =>
    intro lo hi epsHi log σ h1 h2 h
    unfold bisect at h
    split at h
    · simp only at h
      split at h
      · rename_i hlt
        exact ih _ _ _ _ σ rfl (lt_asymm hlt) h
      · exact ih _ _ _ _ σ h1 h2 h
    · injection h with h; subst h; subst h1; exact ⟨h2, by assumption⟩

/-- first loop: started from `eps_high = inf > target`, it can only finish with
`eps_high = eps sigma_high` and `¬ eps_high > target` -/
theorem doubling_done (eps : R → R) (target maxSigma : R) :
    ∀ (fuel : Nat) (hi epsHi : R) (log : List R) (hi' epsHi' : R) (log' : List R),
      (epsHi = eps hi ∨ target < epsHi) →
      doubling eps target maxSigma fuel hi epsHi log = .done hi' epsHi' log' →
      epsHi' = eps hi' ∧ ¬ target < epsHi' := by
  intro fuel
  induction fuel with
  | zero =>
    intro hi epsHi log hi' epsHi' log' h0 h
    unfold doubling at h
    split at h
    · cases h
    · rename_i hn
      injection h with a b c; subst a; subst b
      rcases h0 with h0 | h0
      · exact ⟨h0, hn⟩
      · exact absurd h0 hn
  | succ n ih =>
    intro hi epsHi log hi' epsHi' log' h0 h
    unfold doubling at h
    split at h
    · simp only at h
      split at h
      · cases h
      · exact ih _ _ _ _ _ _ (Or.inl rfl) h
    · rename_i hn
      injection h with a b c; subst a; subst b
      rcases h0 with h0 | h0
      · exact ⟨h0, hn⟩
      · exact absurd h0 hn

/-- **bisection_invariant** — for ANY accountant function `eps` (no monotonicity, no continuity),
any fuel, any starting bracket: whenever `get_noise_multiplier` returns `σ`, the accountant's
answer at that very `σ` is not above the target and not more than the tolerance below it. -/
theorem bisection_invariant (eps : R → R) (target tol maxSigma inf lo0 hi0 : R) (fuelD fuelB : Nat) (σ : R)
    (hinf : target < inf)
    (h : (getNoiseMultiplier eps target tol maxSigma inf lo0 hi0 fuelD fuelB).res = .ok σ) :
    ¬ target < eps σ ∧ ¬ tol < target - eps σ := by
  unfold getNoiseMultiplier at h
  split at h
  · rename_i hi epsHi log hd
    obtain ⟨h1, h2⟩ := doubling_done eps target maxSigma fuelD hi0 inf [] hi epsHi log (Or.inr hinf) hd
    exact bisect_ok eps target tol fuelB lo0 hi epsHi log σ h1 h2 h
  · cases h
  · cases h

end anyOrder

end Opacus.C08
