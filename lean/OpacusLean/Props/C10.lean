import OpacusLean.Lemmas.EngineEffect
import OpacusLean.Generated.BatchSplit
import Mathlib.Tactic.Linarith
import Mathlib.Algebra.Order.Group.Nat
/-! # C10 — splitting logical batches with BatchMemoryManager changes nothing but memory -/
namespace Opacus.C10
open Opacus.Engine List

/-! ## `numpy.array_split` arithmetic -/

theorem sum_splitSizes_aux (q r k : Nat) :
    ((List.range k).map (fun i => if i < r then q + 1 else q)).sum = k * q + min r k := by
  induction k with
  | zero => simp
  | succ k ih =>
    rw [List.range_succ, List.map_append, List.sum_append, ih]
    simp only [List.map_cons, List.map_nil, List.sum_cons, List.sum_nil]
    by_cases h : k < r
    · simp only [h, if_true]; rw [Nat.min_def, Nat.min_def]; split <;> split <;> first | omega | (rw [Nat.succ_mul]; omega)
    · simp only [h, if_false]; rw [Nat.min_def, Nat.min_def]; split <;> split <;> first | omega | (rw [Nat.succ_mul]; omega)

/-- the chunk sizes of `np.array_split` add up to the batch size -/
theorem splitSizes_sum (n k : Nat) (hk : 0 < k) : (splitSizes n k).sum = n := by
  unfold splitSizes
  rw [sum_splitSizes_aux, Nat.min_eq_left (Nat.le_of_lt (Nat.mod_lt n hk))]
  exact Nat.div_add_mod n k

theorem splitSizes_length (n k : Nat) : (splitSizes n k).length = k := by simp [splitSizes]

theorem le_ceilDiv_mul (n m : Nat) (hm : 0 < m) : n ≤ ceilDiv n m * m := by
  unfold ceilDiv
  have h1 := Nat.div_add_mod (n + m - 1) m
  have h2 := Nat.mod_lt (n + m - 1) hm
  rw [Nat.mul_comm] at h1
  omega

theorem ceilDiv_pos (n m : Nat) (hn : 0 < n) (hm : 0 < m) : 0 < ceilDiv n m := by
  unfold ceilDiv
  exact Nat.div_pos (by omega) hm

/-- **chunk_size_le_max**: every physical batch has at most the requested size -/
theorem chunk_size_le_max (n m : Nat) (hn : 0 < n) (hm : 0 < m) :
    ∀ c ∈ splitSizes n (ceilDiv n m), c ≤ m := by
  intro c hc
  have hk := ceilDiv_pos n m hn hm
  have hle := le_ceilDiv_mul n m hm
  generalize ceilDiv n m = k at *
  simp only [splitSizes, List.mem_map, List.mem_range] at hc
  obtain ⟨i, _, rfl⟩ := hc
  have hdm := Nat.div_add_mod n k
  have hq : n / k ≤ m := by
    apply Nat.div_le_of_le_mul; exact hle
  split
  · rename_i hi
    by_contra hcon
    have hqm : n / k = m := by omega
    have : 0 < n % k := by omega
    rw [hqm] at hdm
    omega
  · exact hq

theorem takeChunks_flatten {α} (xs : List α) (sizes : List Nat) (h : sizes.sum = xs.length) :
    (takeChunks xs sizes).flatten = xs := by
  induction sizes generalizing xs with
  | nil => simp at h; simp [takeChunks, List.eq_nil_of_length_eq_zero h.symm]
  | cons s ss ih =>
    simp only [takeChunks, List.flatten_cons]
    rw [ih (xs.drop s) (by simp at h ⊢; omega), List.take_append_drop]

theorem takeChunks_lengths {α} (xs : List α) (sizes : List Nat) (h : sizes.sum = xs.length) :
    (takeChunks xs sizes).map List.length = sizes := by
  induction sizes generalizing xs with
  | nil => simp [takeChunks]
  | cons s ss ih =>
    simp only [takeChunks, List.map_cons, List.length_take]
    rw [ih (xs.drop s) (by simp at h ⊢; omega)]
    simp at h
    rw [Nat.min_eq_left (by omega)]

/-- **chunks_partition**: the physical batches of a logical batch, concatenated in order, are the
logical batch (nothing lost, nothing duplicated, order kept) -/
theorem chunks_partition {α} (batch : List α) (m : Nat) (hm : 0 < m) :
    ((splitBatch batch m).map (·.1)).flatten = batch := by
  unfold splitBatch
  by_cases h0 : batch.length = 0
  · simp [List.eq_nil_of_length_eq_zero h0]
  · simp only [h0, if_false]
    have hk := ceilDiv_pos batch.length m (Nat.pos_of_ne_zero h0) hm
    have := takeChunks_flatten batch _ (splitSizes_sum batch.length _ hk)
    simp only [List.map_map]
    have hfst : ((fun x : List α × Bool => x.1) ∘ fun x : List α × Nat => (x.1, decide (x.2 + 1 < (takeChunks batch (splitSizes batch.length (ceilDiv batch.length m))).length)))
        = fun x => x.1 := by funext x; rfl
    rw [hfst]
    have hz : ∀ (l : List (List α)), (l.zipIdx.map (fun x => x.1)) = l := by
      intro l; simp [List.zipIdx_map_fst]
    rw [hz]; exact this

/-- **physical batches are bounded**: every chunk of `splitBatch` has at most `m` elements -/
theorem chunks_bounded {α} (batch : List α) (m : Nat) (hm : 0 < m) :
    ∀ p ∈ splitBatch batch m, p.1.length ≤ m := by
  intro p hp
  unfold splitBatch at hp
  by_cases h0 : batch.length = 0
  · simp [h0] at hp; subst hp; simp
  · simp only [h0, if_false, List.mem_map] at hp
    obtain ⟨⟨c, i⟩, hci, rfl⟩ := hp
    have hn := Nat.pos_of_ne_zero h0
    have hk := ceilDiv_pos batch.length m hn hm
    have hl := takeChunks_lengths batch _ (splitSizes_sum batch.length _ hk)
    have hmem : c ∈ takeChunks batch (splitSizes batch.length (ceilDiv batch.length m)) :=
      List.fst_mem_of_mem_zipIdx hci
    have : c.length ∈ splitSizes batch.length (ceilDiv batch.length m) := by
      rw [← hl]; exact List.mem_map_of_mem hmem
    exact chunk_size_le_max _ _ hn hm _ this

/-- **signals_shape**: `k − 1` times "skip", then "do not skip"; an empty logical batch is delivered as
one empty physical batch with "do not skip" -/
theorem signals_shape {α} (batch : List α) (m : Nat) (hm : 0 < m) :
    (splitBatch batch m).map (·.2) =
      List.replicate ((splitBatch batch m).length - 1) true ++ [false] := by
  unfold splitBatch
  by_cases h0 : batch.length = 0
  · simp [h0]
  · simp only [h0, if_false]
    have hk := ceilDiv_pos batch.length m (Nat.pos_of_ne_zero h0) hm
    have hlen : (takeChunks batch (splitSizes batch.length (ceilDiv batch.length m))).length = ceilDiv batch.length m := by
      have := congrArg List.length (takeChunks_lengths batch _ (splitSizes_sum batch.length _ hk))
      simpa [splitSizes_length] using this
    generalize takeChunks batch (splitSizes batch.length (ceilDiv batch.length m)) = chunks at hlen
    generalize ceilDiv batch.length m = k at hk hlen
    simp only [List.map_map, List.length_map, List.length_zipIdx, hlen]
    apply List.ext_getElem
    · simp [hlen]; omega
    · intro i h1 h2
      simp only [List.getElem_map, List.getElem_zipIdx, Function.comp]
      simp only [List.length_map, List.length_zipIdx, hlen] at h1
      by_cases hi : i + 1 < k
      · rw [List.getElem_append_left (by simp; omega)]
        simp [hi]
      · have : i = k - 1 := by omega
        subst this
        rw [List.getElem_append_right (by simp)]
        simp; omega


/-! ## The engine run through the split sampler refines the unsplit run -/

def chunkOps (skip : Bool) (n : Nat) : List Op := [.signal skip, .fwdBwd n, .step, .optZeroGrad]

/-- the op sequence of one logical batch delivered as physical batches of the given sizes -/
def logicalOps (sizes : List Nat) (last : Nat) : List Op :=
  (sizes.flatMap (chunkOps true)) ++ chunkOps false last

/-- state between two physical batches of one logical batch (`pre` = tokens accumulated so far) -/
structure Between (s : St) (pre : List Nat) : Prop where
  gs : s.gs = []
  queue : s.queue = []
  summed : (pre = [] ∧ s.summed = none ∧ s.lastSkipped = false) ∨
           (s.summed = some ⟨pre, false⟩ ∧ s.lastSkipped = true)

def afterLogical (s : St) (pre : List Nat) (n : Nat) : St :=
  { gs := [], summed := none, pgrad := some [], lastSkipped := false, queue := [],
    sigma := s.sigma, clip := s.clip, hist := rleStep s.hist (s.sigma, 1), next := s.next + n,
    log := s.log ++ [.noise s.sigma s.clip, .account s.sigma 1, .inner (pre ++ fresh s.next n)] }

theorem fresh_add (a x y : Nat) : fresh a (x + y) = fresh a x ++ fresh (a + x) y := by
  simp only [fresh, List.range_add, List.map_append, List.map_map]
  congr 1
  apply List.map_congr_left
  intro i _; simp [Nat.add_assoc]

theorem run_append (c : Cfg) (s : St) (a b : List Op) : run c s (a ++ b) = run c (run c s a) b := by
  simp [run, List.foldl_append]

def afterSkipped (s : St) (pre : List Nat) (n : Nat) : St :=
  { s with gs := [], summed := some ⟨pre ++ fresh s.next n, false⟩, lastSkipped := true, queue := [],
           next := s.next + n, pgrad := s.pgrad.map (fun _ => []) }

theorem skipped_chunk_std (c : Cfg) (hc : c.kind = .std) (s : St) (pre : List Nat) (n : Nat)
    (h : Between s pre) : run c s (chunkOps true n) = afterSkipped s pre n := by
  obtain ⟨hgs, hq, hs⟩ := h
  rcases hs with ⟨rfl, hsum, hls⟩ | ⟨hsum, hls⟩ <;>
    simp [run, chunkOps, stepOp, hc, hgs, hq, hsum, hls, finishStep, popQueue, accumulateInto, optZero,
      afterSkipped]

theorem last_chunk_std (c : Cfg) (hc : c.kind = .std) (hg : c.gdp = false) (s : St) (pre : List Nat) (n : Nat)
    (h : Between s pre) : run c s (chunkOps false n) = afterLogical s pre n := by
  obtain ⟨hgs, hq, hs⟩ := h
  rcases hs with ⟨rfl, hsum, hls⟩ | ⟨hsum, hls⟩ <;>
    simp [run, chunkOps, stepOp, hc, hg, hgs, hq, hsum, hls, finishStep, popQueue, accumulateInto, optZero,
      afterLogical]

theorem between_afterSkipped (s : St) (pre : List Nat) (n : Nat) :
    Between (afterSkipped s pre n) (pre ++ fresh s.next n) :=
  ⟨rfl, rfl, Or.inr ⟨rfl, rfl⟩⟩

theorem logical_std (c : Cfg) (hc : c.kind = .std) (hg : c.gdp = false) (sizes : List Nat) (last : Nat)
    (s : St) (pre : List Nat) (h : Between s pre) :
    run c s (logicalOps sizes last) = afterLogical s pre (sizes.sum + last) := by
  induction sizes generalizing s pre with
  | nil => simpa [logicalOps] using last_chunk_std c hc hg s pre last h
  | cons n ns ih =>
    have : logicalOps (n :: ns) last = chunkOps true n ++ logicalOps ns last := by
      simp [logicalOps, List.flatMap_cons, List.append_assoc]
    rw [this, run_append, skipped_chunk_std c hc s pre n h, ih _ _ (between_afterSkipped s pre n)]
    simp only [afterLogical, afterSkipped, List.sum_cons]
    rw [Nat.add_assoc n, fresh_add s.next n (ns.sum + last)]
    simp [Nat.add_assoc, List.append_assoc]


def afterSkippedGhost (s : St) (pre : List Nat) (n : Nat) : St :=
  { s with gs := [], summed := some ⟨pre ++ fresh s.next n, false⟩, lastSkipped := true, queue := [],
           next := s.next + n, pgrad := some [] }

theorem skipped_chunk_ghost (c : Cfg) (hc : c.kind = .ghost) (s : St) (pre : List Nat) (n : Nat)
    (h : Between s pre) : run c s (chunkOps true n) = afterSkippedGhost s pre n := by
  obtain ⟨hgs, hq, hs⟩ := h
  rcases hs with ⟨rfl, hsum, hls⟩ | ⟨hsum, hls⟩ <;>
    simp [run, chunkOps, stepOp, hc, hgs, hq, hsum, hls, finishStep, popQueue, accumulateInto, optZero,
      afterSkippedGhost]

theorem last_chunk_ghost (c : Cfg) (hc : c.kind = .ghost) (hg : c.gdp = false) (s : St) (pre : List Nat) (n : Nat)
    (h : Between s pre) : run c s (chunkOps false n) = afterLogical s pre n := by
  obtain ⟨hgs, hq, hs⟩ := h
  rcases hs with ⟨rfl, hsum, hls⟩ | ⟨hsum, hls⟩ <;>
    simp [run, chunkOps, stepOp, hc, hg, hgs, hq, hsum, hls, finishStep, popQueue, accumulateInto, optZero,
      afterLogical]

theorem logical_ghost (c : Cfg) (hc : c.kind = .ghost) (hg : c.gdp = false) (sizes : List Nat) (last : Nat)
    (s : St) (pre : List Nat) (h : Between s pre) :
    run c s (logicalOps sizes last) = afterLogical s pre (sizes.sum + last) := by
  induction sizes generalizing s pre with
  | nil => simpa [logicalOps] using last_chunk_ghost c hc hg s pre last h
  | cons n ns ih =>
    have : logicalOps (n :: ns) last = chunkOps true n ++ logicalOps ns last := by
      simp [logicalOps, List.flatMap_cons, List.append_assoc]
    rw [this, run_append, skipped_chunk_ghost c hc s pre n h,
      ih _ _ (⟨rfl, rfl, Or.inr ⟨rfl, rfl⟩⟩ : Between (afterSkippedGhost s pre n) (pre ++ fresh s.next n))]
    simp only [afterLogical, afterSkippedGhost, List.sum_cons]
    rw [Nat.add_assoc n, fresh_add s.next n (ns.sum + last)]
    simp [Nat.add_assoc, List.append_assoc]

/-- one logical batch, any split into physical batches, either optimizer kind (RDP/PRV accountant) -/
theorem logical_any (c : Cfg) (hg : c.gdp = false) (sizes : List Nat) (last : Nat)
    (s : St) (pre : List Nat) (h : Between s pre) :
    run c s (logicalOps sizes last) = afterLogical s pre (sizes.sum + last) := by
  cases hk : c.kind with
  | std => exact logical_std c hk hg sizes last s pre h
  | ghost => exact logical_ghost c hk hg sizes last s pre h

/-- the op sequence the training loop performs for the physical batches delivered by
`BatchSplittingSampler` for one logical batch -/
def opsOfSplit {α} (parts : List (List α × Bool)) : List Op :=
  parts.flatMap (fun p => chunkOps p.2 p.1.length)

theorem opsOfSplit_eq_logicalOps {α} (parts : List (List α × Bool)) (hne : parts ≠ [])
    (hflags : parts.map (·.2) = List.replicate (parts.length - 1) true ++ [false]) :
    opsOfSplit parts = logicalOps (parts.dropLast.map (·.1.length)) (parts.getLast hne).1.length := by
  induction parts with
  | nil => exact absurd rfl hne
  | cons p ps ih =>
    cases ps with
    | nil =>
      simp at hflags
      simp [opsOfSplit, logicalOps, hflags]
    | cons q qs =>
      have hp : p.2 = true := by
        have := congrArg (fun l => l.head?) hflags
        simpa [List.replicate_succ] using this
      have htail : (q :: qs).map (·.2) = List.replicate ((q :: qs).length - 1) true ++ [false] := by
        have := congrArg List.tail hflags
        simpa [List.replicate_succ] using this
      have := ih (by simp) htail
      simp only [opsOfSplit, List.flatMap_cons] at this ⊢
      rw [this]
      simp [logicalOps, List.flatMap_cons, hp, List.append_assoc]


theorem sum_lengths_split {α} (batch : List α) (m : Nat) (hm : 0 < m) :
    ((splitBatch batch m).map (·.1.length)).sum = batch.length := by
  have := congrArg List.length (chunks_partition batch m hm)
  rw [List.length_flatten, List.map_map] at this
  exact this

theorem splitBatch_ne_nil {α} (batch : List α) (m : Nat) (hm : 0 < m) : splitBatch batch m ≠ [] := by
  intro h
  have := chunks_partition batch m hm
  have hs := signals_shape batch m hm
  rw [h] at hs
  simp at hs

theorem afterLogical_between (s : St) (pre : List Nat) (n : Nat) : Between (afterLogical s pre n) [] :=
  ⟨rfl, rfl, Or.inl ⟨rfl, rfl, rfl⟩⟩

/-- **bmm_refines_unsplit (one logical batch)**: from any batch boundary, training on the physical
batches `BatchSplittingSampler` delivers for a logical batch (signal, forward/backward, step,
zero_grad for each) ends in *the same state* – same released tokens in the same order, one noise block,
one accountant record, same history, nothing pending – as training on the unsplit batch. Standard and
ghost-clipping optimizers, any `max_physical_batch_size ≥ 1`, including the empty logical batch. -/
theorem bmm_refines_unsplit_one {α} (c : Cfg) (hg : c.gdp = false) (s : St) (h : Between s [])
    (batch : List α) (m : Nat) (hm : 0 < m) :
    run c s (opsOfSplit (splitBatch batch m)) = run c s (chunkOps false batch.length) := by
  have hne := splitBatch_ne_nil batch m hm
  rw [opsOfSplit_eq_logicalOps _ hne (signals_shape batch m hm), logical_any c hg _ _ s [] h]
  have hr : chunkOps false batch.length = logicalOps [] batch.length := by simp [logicalOps]
  rw [hr, logical_any c hg _ _ s [] h]
  congr 1
  have hs := sum_lengths_split batch m hm
  have hsplit : (splitBatch batch m) = (splitBatch batch m).dropLast ++ [(splitBatch batch m).getLast hne] :=
    (List.dropLast_concat_getLast hne).symm
  rw [hsplit, List.map_append, List.sum_append] at hs
  simp at hs ⊢
  omega

/-- **bmm_refines_unsplit**: for every sequence of logical batches and every maximum physical batch
size, the whole training run through the batch memory manager equals the run without it. -/
theorem bmm_refines_unsplit {α} (c : Cfg) (hg : c.gdp = false) (batches : List (List α)) (m : Nat) (hm : 0 < m)
    (s : St) (h : Between s []) :
    run c s (batches.flatMap (fun b => opsOfSplit (splitBatch b m)))
      = run c s (batches.flatMap (fun b => chunkOps false b.length)) := by
  induction batches generalizing s with
  | nil => rfl
  | cons b bs ih =>
    simp only [List.flatMap_cons, run_append]
    rw [bmm_refines_unsplit_one c hg s h b m hm]
    have hr : chunkOps false b.length = logicalOps [] b.length := by simp [logicalOps]
    rw [hr, logical_any c hg _ _ s [] h]
    exact ih _ (afterLogical_between _ _ _)

/-- the initial state is a batch boundary -/
theorem init_between (σ C : Nat) : Between (init σ C) [] := ⟨rfl, rfl, Or.inl ⟨rfl, rfl, rfl⟩⟩

/-- non-vacuity: 5 samples, physical size 2 → chunks of 2, 2, 1 (numpy.array_split) with signals 1 1 0 -/
example : (splitBatch [10, 11, 12, 13, 14] 2) = [([10, 11], true), ([12, 13], true), ([14], false)] := by decide

/-- **zero_grad is idempotent**: clearing twice between two steps (a loop that clears at the bottom and again at the top of
every iteration) is clearing once – in particular a second `optimizer.zero_grad()` never drops what the physical batches of
the current logical batch have accumulated -/
theorem optZeroGrad_idempotent (c : Cfg) (s : St) :
    (stepOp c (stepOp c s .optZeroGrad).1 .optZeroGrad).1 = (stepOp c s .optZeroGrad).1 := by
  obtain ⟨gs, summed, pgrad, ls, q, sg, cl, hist, nx, lg⟩ := s
  cases ls <;> cases pgrad <;> simp [stepOp, optZero]

theorem modZeroGrad_idempotent (c : Cfg) (s : St) :
    (stepOp c (stepOp c s .modZeroGrad).1 .modZeroGrad).1 = (stepOp c s .modZeroGrad).1 := by
  obtain ⟨gs, summed, pgrad, ls, q, sg, cl, hist, nx, lg⟩ := s
  cases pgrad <;> simp [stepOp]

/-! ## The tie to the source: `BatchSplittingSampler.__iter__`, re-translated on every run (`Generated/BatchSplit.lean`) -/

/-- pairing a list with "is not the last one" flags = all but the last flagged `true`, then the last flagged `false` -/
theorem zipIdx_flags_eq {β} (l : List β) (last : β) (h : l.getLast? = some last) :
    l.zipIdx.map (fun p => (p.1, decide (p.2 + 1 < l.length))) =
      l.dropLast.map (fun c => (c, true)) ++ [(last, false)] := by
  have hne : l ≠ [] := by intro h0; simp [h0] at h
  have hpos : 0 < l.length := List.length_pos_iff.mpr hne
  apply List.ext_getElem
  · simp; omega
  · intro i h1 h2
    simp only [List.length_map, List.length_zipIdx] at h1
    simp only [List.getElem_map, List.getElem_zipIdx]
    by_cases hi : i + 1 < l.length
    · rw [List.getElem_append_left (by simp; omega)]
      simp [hi]
    · have hil : i = l.length - 1 := by omega
      rw [List.getElem_append_right (by simp; omega)]
      rw [List.getLast?_eq_getElem?] at h
      have : l[i]? = some last := by rw [hil]; exact h
      have hli : l[i] = last := by
        rw [List.getElem?_eq_getElem h1] at this; exact Option.some.inj this
      simp [hi, hli]

/-- **generated_iter_eq_model**: what `BatchSplittingSampler.__iter__` – as written in the source under test – yields for one
logical batch (the physical batches in order, each with the skip signal sent right before it) is the model's `splitBatch`,
for every batch content and every maximum physical size ≥ 1; in particular it never raises (`some`). The partition, bound,
signal-shape and refinement theorems above are therefore about the source as it stands. -/
theorem generated_iter_eq_model {α} (batch : List α) (m : Nat) (hm : 0 < m) :
    Opacus.Generated.BatchSplit.iterOne batch m = some (splitBatch batch m) := by
  unfold Opacus.Generated.BatchSplit.iterOne splitBatch
  by_cases h0 : batch.length = 0
  · simp [h0, Opacus.Generated.BatchSplit.catOpt]
  · have hk := ceilDiv_pos batch.length m (Nat.pos_of_ne_zero h0) hm
    have hlen : (takeChunks batch (splitSizes batch.length (ceilDiv batch.length m))).length = ceilDiv batch.length m := by
      have := congrArg List.length (takeChunks_lengths batch _ (splitSizes_sum batch.length _ hk))
      simpa [splitSizes_length] using this
    have hne : takeChunks batch (splitSizes batch.length (ceilDiv batch.length m)) ≠ [] := by
      intro h; rw [h] at hlen; simp at hlen; omega
    obtain ⟨last, hlast⟩ : ∃ last, (takeChunks batch (splitSizes batch.length (ceilDiv batch.length m))).getLast? = some last :=
      ⟨_, List.getLast?_eq_some_getLast hne⟩
    have hz := zipIdx_flags_eq _ last hlast
    simp only [h0, if_false, beq_iff_eq, Opacus.Generated.BatchSplit.arraySplit, hlast,
      Opacus.Generated.BatchSplit.catOpt, Option.map_some, List.append_nil]
    rw [← hz]

/-- corollaries stated directly on the generated function: partition, bound and signal shape -/
theorem generated_iter_partition_bounded {α} (batch : List α) (m : Nat) (hm : 0 < m) :
    ∃ parts, Opacus.Generated.BatchSplit.iterOne batch m = some parts ∧
      (parts.map (·.1)).flatten = batch ∧ (∀ p ∈ parts, p.1.length ≤ m) ∧
      parts.map (·.2) = List.replicate (parts.length - 1) true ++ [false] :=
  ⟨_, generated_iter_eq_model batch m hm, chunks_partition batch m hm, chunks_bounded batch m hm, signals_shape batch m hm⟩

example : Opacus.Generated.BatchSplit.iterOne [10, 11, 12, 13, 14] 2 =
    some [([10, 11], true), ([12, 13], true), ([14], false)] := by decide

end Opacus.C10
