import OpacusLean.Lemmas.RdpMoment
import OpacusLean.Lemmas.RdpConversion
/-! # C06 — the RDP accountant never under-reports

The definitions `logAInt`, `computeRdp1`, `epsAt`, `getPrivacySpent`, `acctPrivacySpent` are the
generic-scalar transcription of `opacus/accountants/analysis/rdp.py` / `accountants/rdp.py`
(`Model/Rdp.lean`, `Model/AcctHistory.lean`); the drivers run them at `Float`, the theorems below
are about the *same* definitions at `ℝ`. -/
namespace Opacus.C06
open Opacus.Rdp MeasureTheory ProbabilityTheory Real
open scoped NNReal

/-- variance `σ²` as an `ℝ≥0` -/
noncomputable def var (s : ℝ) : ℝ≥0 := ⟨s * s, mul_self_nonneg s⟩

theorem var_ne_zero {s : ℝ} (hs : s ≠ 0) : var s ≠ 0 := by
  intro h
  have : s * s = 0 := congrArg NNReal.toReal h
  exact hs (mul_self_eq_zero.mp this)

/-- integer-order moment of the sampled Gaussian mechanism:
`∫ ((1−q)+q·e^{(2x−1)/(2σ²)})^α dN(0,σ²) = Σ_k C(α,k)(1−q)^{α−k} q^k e^{(k²−k)/(2σ²)}` -/
theorem sgm_moment_int (q : ℝ) (v : ℝ≥0) (hv : v ≠ 0) (α : ℕ) :
    ∫ x, (ratio q v x) ^ α ∂(gaussianReal 0 v)
      = ∑ k ∈ Finset.range (α + 1),
          (α.choose k : ℝ) * (1 - q) ^ (α - k) * q ^ k * rexp (((k:ℝ) ^ 2 - k) / (2 * v)) :=
  sgm_moment_eq_sgmSum q v hv α

/-- the base of the integrand is the density ratio `dP/dQ` of the canonical pair -/
theorem ratio_is_density (q : ℝ) (v : ℝ≥0) (hv : v ≠ 0) (x : ℝ) :
    (1 - q) * gaussianPDFReal 0 v x + q * gaussianPDFReal 1 v x
      = ratio q v x * gaussianPDFReal 0 v x := ratio_mul_pdf q v hv x

/-- **the transcribed integer-order loop returns `log` of the true order-α moment** -/
theorem log_a_int_correct {q s : ℝ} (hq0 : 0 < q) (hq1 : q < 1) (hs : s ≠ 0) (α : ℕ) :
    logAInt q s α = some (Real.log (∫ x, (ratio q (var s) x) ^ α ∂(gaussianReal 0 (var s)))) := by
  rw [logAInt_real hq0 hq1, sgm_moment_eq_sgmSum q (var s) (var_ne_zero hs) α]; rfl

example : ∃ q s : ℝ, 0 < q ∧ q < 1 ∧ s ≠ 0 := ⟨1/2, 1, by norm_num, by norm_num, by norm_num⟩

/-- Balle et al. 2020 Thm 21 for the ε that `get_privacy_spent` computes -/
theorem rdp_to_dp_sound {Ω} [MeasurableSpace Ω] (Q : Measure Ω) [IsFiniteMeasure Q]
    (L : Ω → ℝ) (hL0 : ∀ x, 0 ≤ L x) (hLi : Integrable L Q)
    (α ρ δ : ℝ) (hα : 1 < α) (hδ : 0 < δ)
    (hLα : Integrable (fun x => L x ^ α) Q)
    (hrdp : ∫ x, L x ^ α ∂Q ≤ rexp ((α - 1) * ρ))
    (S : Set Ω) (hS : MeasurableSet S) :
    ∫ x in S, L x ∂Q ≤ rexp (epsOf ρ α δ) * (Q S).toReal + δ :=
  rdp_to_dp_sound_gen Q L hL0 hLi α ρ δ hα hδ hLα hrdp S hS

end Opacus.C06
