import OpacusLean.Generated.RdpIntLoop
import OpacusLean.Lemmas.RdpCompose
import OpacusLean.Lemmas.RdpFrac
/-! # C06 — the RDP accountant never under-reports

The definitions `logAInt`, `computeRdp1`, `epsAt`, `getPrivacySpent`, `histRdp`, `acctEpsilon` are the
generic-scalar transcription of `opacus/accountants/analysis/rdp.py` / `accountants/rdp.py`
(`Model/Rdp.lean`, `Model/AcctHistory.lean`); the drivers run them at `Float`, the theorems below
are about the *same* definitions at `ℝ` (instance in `Lemmas/RdpReal.lean`).

Canonical pair of one Poisson-subsampled Gaussian step with sampling rate `q` and noise multiplier
`σ` (sensitivity 1): `Q = N(0,σ²)`, `P = (1−q)·N(0,σ²) + q·N(1,σ²)`; `ratio q σ² = dP/dQ`.
The order-α Rényi divergence is `D_α(P‖Q) = (α−1)⁻¹ · log ∫ (dP/dQ)^α dQ`.

Cited, not proved (Mironov–Talwar–Zhang 2019): over all neighbouring datasets the RDP of the
mechanism is attained on this pair, and `D_α(P‖Q) ≥ D_α(Q‖P)`.  Fractional orders: no theorem
(see `frac_series_early_stop_counterexample`). -/
namespace Opacus.C06
open Opacus.Rdp MeasureTheory ProbabilityTheory Real
open scoped NNReal

/-- integer-order moment of the sampled Gaussian mechanism:
`∫ ((1−q)+q·e^{(2x−1)/(2σ²)})^α dN(0,σ²) = Σ_k C(α,k)(1−q)^{α−k} q^k e^{(k²−k)/(2σ²)}` -/
theorem sgm_moment_int (q : ℝ) (v : ℝ≥0) (hv : v ≠ 0) (α : ℕ) :
    ∫ x, (ratio q v x) ^ α ∂(gaussianReal 0 v)
      = ∑ k ∈ Finset.range (α + 1),
          (α.choose k : ℝ) * (1 - q) ^ (α - k) * q ^ k * rexp (((k:ℝ) ^ 2 - k) / (2 * v)) :=
  sgm_moment_eq_sgmSum q v hv α

/-- the base of the integrand is the density ratio `dP/dQ` of the canonical pair: pointwise on the
Gaussian densities, and as measures `P(S) = ∫_S ratio dQ` -/
theorem ratio_is_density {q : ℝ} (hq0 : 0 ≤ q) (hq1 : q ≤ 1) (v : ℝ≥0) (hv : v ≠ 0) :
    (∀ x, (1 - q) * gaussianPDFReal 0 v x + q * gaussianPDFReal 1 v x
        = ratio q v x * gaussianPDFReal 0 v x)
      ∧ ∀ S : Set ℝ, MeasurableSet S →
          (sgmP q v S).toReal = ∫ x in S, ratio q v x ∂(gaussianReal 0 v) :=
  ⟨ratio_mul_pdf q v hv, fun _ hS => sgmP_apply hq0 hq1 v hv hS⟩

/-- **the transcribed integer-order loop returns `log` of the true order-α moment** -/
theorem log_a_int_correct {q s : ℝ} (hq0 : 0 < q) (hq1 : q < 1) (hs : s ≠ 0) (α : ℕ) :
    logAInt q s α = some (Real.log (∫ x, (ratio q (var s) x) ^ α ∂(gaussianReal 0 (var s)))) := by
  rw [logAInt_real hq0 hq1, sgm_moment_eq_sgmSum q (var s) (var_ne_zero hs) α]; rfl

example : ∃ q s : ℝ, 0 < q ∧ q < 1 ∧ s ≠ 0 := ⟨1/2, 1, by norm_num, by norm_num, by norm_num⟩

/-- **`_compute_rdp` at an integer order equals the Rényi divergence of the canonical pair**
(`= (α−1)⁻¹ log E_Q[(dP/dQ)^α]`; in particular it is not below it) — all branches `0 ≤ q ≤ 1`. -/
theorem compute_rdp_eq_renyi (cfg : Cfg ℝ) {q s : ℝ} (hq0 : 0 ≤ q) (hq1 : q ≤ 1) (hs : s ≠ 0) {n : ℕ}
    (hn : 2 ≤ n) :
    computeRdp1 cfg q s (.int n)
      = .ok (.fin (Real.log (∫ x, (ratio q (var s) x) ^ n ∂(gaussianReal 0 (var s))) / ((n : ℝ) - 1))) := by
  have hn1 : ((n : ℝ) - 1) ≠ 0 := by
    have : (2 : ℝ) ≤ n := by exact_mod_cast hn
    intro h; linarith
  rw [computeRdp1_int cfg hq0 hq1 hs hn, moment_eq_exp_rdpR hq0 hq1 hs hn, Real.log_exp,
    mul_div_cancel_left₀ _ hn1]

/-- the `q = 1` branch `α/(2σ²)` is the Gaussian mechanism's RDP, at every real order `a ≠ 1`:
`(a−1)⁻¹ log ∫ (dN(1,σ²)/dN(0,σ²))^a dN(0,σ²) = a/(2σ²)` -/
theorem rdp_q_one (cfg : Cfg ℝ) {s : ℝ} (hs : s ≠ 0) {a : ℝ} (ha : a ≠ 1) :
    computeRdp1 cfg 1 s (.frac a) = .ok (.fin (a / (2 * (s * s))))
      ∧ Real.log (∫ x, (rexp ((2 * x - 1) / (2 * (var s : ℝ)))) ^ a ∂(gaussianReal 0 (var s))) / (a - 1)
          = a / (2 * (s * s)) := by
  constructor
  · simp [computeRdp1, hs, Order.val?]
  · have ha1 : a - 1 ≠ 0 := sub_ne_zero.mpr ha
    have hss : s * s ≠ 0 := mul_ne_zero hs hs
    rw [gaussian_moment (var s) (var_ne_zero hs) a, Real.log_exp, var_coe]
    field_simp

/-- steps multiply and histories add: the RDP the accountant sums for a history is
`Σ_runs steps · rdp(q, σ, α)`, additive under concatenation -/
theorem rdp_compose_add (cfg : Cfg ℝ) (h₁ h₂ : Hist ℝ) (hg₁ : GoodHist h₁) (hg₂ : GoodHist h₂) {n : ℕ}
    (hn : 2 ≤ n) :
    histRdp cfg (h₁ ++ h₂) (.int n) = .ok (.fin (totR h₁ n + totR h₂ n))
      ∧ histRdp cfg h₁ (.int n) = .ok (.fin (totR h₁ n))
      ∧ ∀ (s q : ℝ) (k : ℕ), totR [(s, q, k)] n = rdpR q s n * k := by
  refine ⟨?_, histRdp_int cfg hn h₁ hg₁, fun s q k => by simp [totR]⟩
  have hg : GoodHist (h₁ ++ h₂) := fun e he => by
    rcases List.mem_append.mp he with he | he
    · exact hg₁ e he
    · exact hg₂ e he
  rw [histRdp_int cfg hn _ hg, totR_append]

/-- Balle et al. 2020 Thm 21 for the ε that `get_privacy_spent` computes: for a finite measure `Q`,
density `L ≥ 0`, real order `α > 1`: if `∫ L^α dQ ≤ e^{(α−1)ρ}` then `P(S) ≤ e^ε Q(S) + δ` with
`ε = ρ − (log δ + log α)/(α−1) + log((α−1)/α)` -/
theorem rdp_to_dp_sound {Ω} [MeasurableSpace Ω] (Q : Measure Ω) [IsFiniteMeasure Q]
    (L : Ω → ℝ) (hL0 : ∀ x, 0 ≤ L x) (hLi : Integrable L Q)
    (α ρ δ : ℝ) (hα : 1 < α) (hδ : 0 < δ)
    (hLα : Integrable (fun x => L x ^ α) Q)
    (hrdp : ∫ x, L x ^ α ∂Q ≤ rexp ((α - 1) * ρ))
    (S : Set Ω) (hS : MeasurableSet S) :
    ∫ x in S, L x ∂Q ≤ rexp (epsOf ρ α δ) * (Q S).toReal + δ
      ∧ epsAt (EV.fin ρ) (.frac α) δ = EV.fin (epsOf ρ α δ) :=
  ⟨rdp_to_dp_sound_gen Q L hL0 hLi α ρ δ hα hδ hLα hrdp S hS, by simp [epsAt, Order.val?, epsOf, log_real]⟩

/-- the arg-min over orders is sound: if at every order of the list the mechanism `(L, Q)` satisfies
the RDP bound the accountant summed, the ε it returns is a valid `(ε, δ)` guarantee -/
theorem min_over_orders_sound (cfg : Cfg ℝ) {h : Hist ℝ} (hne : h ≠ []) (hg : GoodHist h) {δ : ℝ}
    (hδ : 0 < δ) {ns : List ℕ} (hns : ns ≠ []) (hn2 : ∀ n ∈ ns, 2 ≤ n)
    {Ω} [MeasurableSpace Ω] (Q : Measure Ω) [IsFiniteMeasure Q] (L : Ω → ℝ) (hL0 : ∀ x, 0 ≤ L x)
    (hLi : Integrable L Q) (hLα : ∀ n ∈ ns, Integrable (fun x => L x ^ (n : ℝ)) Q)
    (hrdp : ∀ n ∈ ns, ∫ x, L x ^ (n : ℝ) ∂Q ≤ rexp (((n : ℝ) - 1) * totR h n)) :
    ∃ v, acctEpsilon cfg h δ (ns.map .int) = .ok (.fin v) ∧
      ∀ S, MeasurableSet S → ∫ x in S, L x ∂Q ≤ rexp v * (Q S).toReal + δ := by
  obtain ⟨v, hv, ⟨n, hn, hvn⟩, _⟩ := acctEpsilon_int cfg h hne hg δ ns hns hn2
  refine ⟨v, hv, fun S hS => ?_⟩
  have h1 : (1 : ℝ) < n := by exact_mod_cast (hn2 n hn)
  rw [hvn]
  exact rdp_to_dp_sound_gen Q L hL0 hLi (n : ℝ) (totR h n) δ h1 hδ (hLα n hn) (hrdp n hn) S hS

/-- **ε is valid for the recorded history** (integer orders; non-adaptive composition of the
canonical pairs of the recorded steps, remove direction): see `Opacus.Rdp.composed_eps_valid`. -/
theorem eps_valid_for_history (cfg : Cfg ℝ) {h : Hist ℝ} (hne : h ≠ []) (hg : GoodHist h) {k : ℕ}
    (par : Fin k → ℝ × ℝ) (hp : ∀ i, GoodStep (par i)) (he : expand h = List.ofFn par)
    {δ : ℝ} (hδ : 0 < δ) {ns : List ℕ} (hns : ns ≠ []) (hn2 : ∀ n ∈ ns, 2 ≤ n) :
    ∃ v, acctEpsilon cfg h δ (ns.map .int) = .ok (.fin v) ∧
      ∀ S : Set (Fin k → ℝ), MeasurableSet S →
        ∫ x in S, prodL par x ∂(prodQ par) ≤ rexp v * (prodQ par S).toReal + δ :=
  composed_eps_valid cfg hne hg par hp he hδ hns hn2

example : ∃ (h : Hist ℝ) (par : Fin 3 → ℝ × ℝ), h ≠ [] ∧ GoodHist h ∧ (∀ i, GoodStep (par i))
    ∧ expand h = List.ofFn par :=
  ⟨[(1, 1/2, 3)], fun _ => (1, 1/2), by simp, by intro e he; simp at he; subst he; norm_num,
    by intro i; simp [GoodStep]; norm_num, by simp [expand, List.ofFn_succ, List.replicate]⟩

/-- **counterexample for fractional orders (finding C06:frac-series-stops-at-first-term).**
`q = 1/2, σ = 20, α = 50.5`: the transcribed `_compute_log_a_for_frac_alpha`, with ANY oracle for
`log_ndtr` that takes values `≤ 0` (as every log-probability does), stops after its first term and
`_compute_rdp` returns a strictly negative number — below every Rényi divergence. -/
theorem frac_series_early_stop_counterexample (lnd : ℝ → ℝ) (hl : ∀ x, lnd x ≤ 0) (fuel : ℕ) :
    ∃ v, computeRdp1 ⟨lnd, fuel + 1, false⟩ (1 / 2) 20 (.frac (101 / 2)) = .ok (.fin v) ∧ v < 0 :=
  frac_early_stop_witness lnd hl fuel

/-- the real instance's operations are the field operations of ℝ (used to normalise a re-translated loop body) -/
theorem rs_add (a b : ℝ) : @HAdd.hAdd ℝ ℝ ℝ (@instHAdd ℝ instRScalarReal.toAdd) a b = a + b := rfl
theorem rs_sub (a b : ℝ) : @HSub.hSub ℝ ℝ ℝ (@instHSub ℝ instRScalarReal.toSub) a b = a - b := rfl
theorem rs_mul (a b : ℝ) : @HMul.hMul ℝ ℝ ℝ (@instHMul ℝ instRScalarReal.toMul) a b = a * b := rfl
theorem rs_div (a b : ℝ) : @HDiv.hDiv ℝ ℝ ℝ (@instHDiv ℝ instRScalarReal.toDiv) a b = a / b := rfl
theorem rs_log (a : ℝ) : RScalar.log a = Real.log a := rfl
theorem rs_ofNat (n : ℕ) : (RScalar.ofNat n : ℝ) = (n : ℝ) := rfl

set_option linter.unusedTactic false in
set_option linter.unreachableTactic false in
/-- the tie to the source: the loop of `_compute_log_a_for_int_alpha`, re-translated from
`opacus/accountants/analysis/rdp.py` on every run (`Generated/RdpIntLoop.lean`), is the model's `logAInt` — for every
scalar instance when the text is the transcription (`rfl`), and over ℝ up to operand order and association otherwise -/
theorem generated_int_loop_eq_model (q s : ℝ) (α : ℕ) :
    Opacus.Generated.Rdp.logAIntLoop q s α = logAInt q s α := by
  first
  | rfl
  | (unfold Opacus.Generated.Rdp.logAIntLoop logAInt
     congr 1
     funext acc i
     show logAdd acc (some _) = logAdd acc (some (intTerm q s α i))
     congr 2
     rw [intTerm_real]
     simp only [rs_add, rs_sub, rs_mul, rs_div, rs_log, rs_ofNat]
     ring_nf)

/-- the same tie at an arbitrary scalar instance (in particular the `Float` instance the drivers run) holds by
unfolding whenever the source is the transcription; recorded for the real instance the theorems use -/
theorem log_a_int_correct_generated {q s : ℝ} (hq0 : 0 < q) (hq1 : q < 1) (hs : s ≠ 0) (α : ℕ) :
    Opacus.Generated.Rdp.logAIntLoop q s α
      = some (Real.log (∫ x, (ratio q (var s) x) ^ α ∂(gaussianReal 0 (var s)))) := by
  rw [generated_int_loop_eq_model]; exact log_a_int_correct hq0 hq1 hs α

end Opacus.C06
