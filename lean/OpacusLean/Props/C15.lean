import OpacusLean.Model.ValidateTable
import OpacusLean.Generated.ValidatorTable
import OpacusLean.Lemmas.ValidateFix
/-! # C15 — validation accepts only sample-independent models; `ModuleValidator.fix` is safe and faithful

Statements are about the model in `OpacusLean/Model/Validate.lean` (module trees, `trainable_modules`,
`ModuleValidator.validate / fix`, the registered validators and fixers, `GradSampleModule.validate`,
`make_private`'s checks), for **all** module trees.  `Variant` selects, at the four places where the
code as it stands violates the property (findings D3–D6), between the behaviour as coded and the
repaired one; each run of the check determines which one the tree under test implements. -/
namespace Opacus.C15
open Opacus.Validate

/-! ## The code's finite tables, as extracted on this run -/

/-- the registries hold exactly the validators / fixers the model has -/
theorem generated_registry_matches_model :
    Generated.validatorKeys = validatorKeys ∧ Generated.fixerKeys = fixerKeys := by decide

/-- the extracted verdict table covers layer type × affine × track_running_stats × trainable × training -/
theorem generated_table_complete : Generated.rows.map Row.key = tableDomain := by decide +kernel

/-- every verdict of the running code (error classes of `ModuleValidator.validate`, error count of
`GradSampleModule.validate`) on a single layer is the model's, under the variant detected on this run -/
theorem generated_table_matches_model : ∀ r ∈ Generated.rows, r.agrees Generated.variant = true := by
  have h : Generated.rows.all (fun r => r.agrees Generated.variant) = true := by decide +kernel
  exact List.all_eq_true.mp h

/-! ## What `make_private` refuses -/

theorem makePrivate_ok_iff (v : Variant) (t : Tree) (opt : List Oid) :
    makePrivate v t opt = .ok () ↔
      (∀ p ∈ opt, p ∈ t.paramOids) ∧ mvValidate v t = [] ∧ gsmValidate t = 0 := by
  unfold makePrivate
  by_cases h1 : opt.any (fun p => !(t.paramOids.contains p)) = true
  · rw [if_pos h1]
    simp only [reduceCtorEq, false_iff, not_and]
    intro h
    rw [List.any_eq_true] at h1
    obtain ⟨p, hp, hc⟩ := h1
    simp [h p hp] at hc
  · rw [if_neg h1]
    have h1' : ∀ p ∈ opt, p ∈ t.paramOids := by
      intro p hp
      simp only [List.any_eq_true, not_exists, not_and] at h1
      simpa using h1 p hp
    by_cases h2 : mvValidate v t = []
    · by_cases h3 : gsmValidate t = 0
      · simp [h2, h3]; exact h1'
      · have : gsmValidate t > 0 := Nat.pos_of_ne_zero h3
        simp [h2, h3, this]
    · simp [h2]

/-- an optimizer holding a parameter that is not one of the model's parameter objects is refused -/
theorem rejects_foreign_optimizer_params (v : Variant) (t : Tree) (opt : List Oid)
    (h : ∃ p ∈ opt, p ∉ t.paramOids) : makePrivate v t opt = .error .valueError := by
  obtain ⟨p, hp, hn⟩ := h
  have : opt.any (fun p => !(t.paramOids.contains p)) = true := by
    rw [List.any_eq_true]; exact ⟨p, hp, by simpa using hn⟩
  unfold makePrivate
  rw [if_pos this]

/-- an eval-mode model is refused by validation and hence by `make_private`, whatever else it contains -/
theorem rejects_eval (v : Variant) (t : Tree) (opt : List Oid) (h : t.info.training = false) :
    ErrC.illegalConfig ∈ mvValidate v t ∧ makePrivate v t opt ≠ .ok () := by
  have h1 : ErrC.illegalConfig ∈ mvValidate v t := by simp [mvValidate, h]
  refine ⟨h1, fun hok => ?_⟩
  rw [makePrivate_ok_iff] at hok
  rw [hok.2.1] at h1
  cases h1

/-- a layer that couples the batch or is unsupported: BatchNorm*, LSTM, MultiheadAttention,
InstanceNorm with running statistics -/
def unsupported (i : Info) : Bool :=
  isBN i.ty || i.ty == .lstm || i.ty == .mha || (isIN i.ty && i.cfg.trs)

theorem nodeErrs_of_unsupported {i : Info} (h : unsupported i = true) : nodeErrs i ≠ [] := by
  obtain ⟨nm, o, ty, ps, bs, tr, cf⟩ := i
  cases ty <;> simp_all [unsupported, nodeErrs, validatorOf, isBN, isIN]

/-- a model with a *visited* (as coded: trainable) unsupported layer anywhere in the tree is refused -/
theorem rejects_unsupported_layers (v : Variant) (t : Tree) (opt : List Oid)
    (h : ∃ e ∈ t.named, unsupported e.2.info = true ∧ walkedP v e.2.info = true) :
    mvValidate v t ≠ [] ∧ makePrivate v t opt ≠ .ok () := by
  obtain ⟨e, he, hu, hwk⟩ := h
  have hmem : e ∈ walked v t := by
    unfold walked
    cases hv : v.walkAll
    · simp only [Bool.false_eq_true, if_false, trainableModules, List.mem_filter]
      exact ⟨he, by simpa [walkedP, hv] using hwk⟩
    · simpa using he
  have h1 : mvValidate v t ≠ [] := by
    intro h0
    simp only [mvValidate, List.append_eq_nil_iff, List.flatMap_eq_nil_iff] at h0
    exact nodeErrs_of_unsupported hu (h0.2 e hmem)
  refine ⟨h1, fun hok => ?_⟩
  rw [makePrivate_ok_iff] at hok
  exact h1 hok.2.1

/-- a trainable module that owns buffers (directly or below it) is refused by the engine's strict check -/
theorem rejects_trainable_with_buffers (v : Variant) (t : Tree) (opt : List Oid)
    (h : ∃ e ∈ t.named, e.2.info.trainable = true ∧ e.2.bufCount > 0) : makePrivate v t opt ≠ .ok () := by
  obtain ⟨e, he, ht, hb⟩ := h
  intro hok
  rw [makePrivate_ok_iff] at hok
  have : e ∈ (trainableModules t).filter (fun e => e.2.bufCount > 0) := by
    simp only [trainableModules, List.mem_filter]
    exact ⟨⟨he, ht⟩, by simpa using hb⟩
  have hlen := hok.2.2
  simp only [gsmValidate, List.length_eq_zero_iff] at hlen
  rw [hlen] at this
  cases this

/-! ## What validation accepts -/

theorem node_independent_of_ok {i : Info} (hok : nodeErrs i = []) (hb : bufWF i = true) :
    nodeIndependent i = true := by
  obtain ⟨nm, o, ty, ps, bs, tr, cf⟩ := i
  cases ty <;> simp_all [nodeErrs, validatorOf, nodeIndependent, couples, updatesStats, bufWF, isBN, isIN]

theorem node_independent_of_plain {i : Info} (h1 : isBN i.ty = false) (h2 : isIN i.ty = false) :
    nodeIndependent i = true := by
  simp [nodeIndependent, couples, updatesStats, h1, h2]

/-- **accepts_implies_independent** (general form).  A tree that `ModuleValidator.validate` accepts
is sample-independent, provided normalisation layers own running-stat buffers only when their flag
says so (torch's constructors guarantee that) and — when the validators only visit trainable
modules — provided every normalisation layer is trainable. -/
theorem accepts_implies_independent_general (v : Variant) (t : Tree) (hacc : mvValidate v t = [])
    (hbuf : ∀ e ∈ t.named, bufWF e.2.info = true)
    (hcov : v.walkAll = false → ∀ e ∈ t.named, (isBN e.2.info.ty || isIN e.2.info.ty) = true → e.2.info.trainable = true) :
    independent t := by
  intro e he
  simp only [mvValidate, List.append_eq_nil_iff, List.flatMap_eq_nil_iff] at hacc
  by_cases hn : (isBN e.2.info.ty || isIN e.2.info.ty) = true
  · have hmem : e ∈ walked v t := by
      unfold walked
      cases hv : v.walkAll
      · simp only [Bool.false_eq_true, if_false, trainableModules, List.mem_filter]
        exact ⟨he, hcov hv e he hn⟩
      · simpa using he
    exact node_independent_of_ok (hacc.2 e hmem) (hbuf e he)
  · simp only [Bool.or_eq_true, not_or, Bool.not_eq_true] at hn
    exact node_independent_of_plain hn.1 hn.2

/-- **accepts_implies_independent** — the property at full strength; it holds for the *repaired*
validators (every module visited).  For the code as it stands its negation is proved below. -/
theorem accepts_implies_independent (t : Tree) (hacc : mvValidate repaired t = [])
    (hbuf : ∀ e ∈ t.named, bufWF e.2.info = true) : independent t :=
  accepts_implies_independent_general repaired t hacc hbuf (fun h => by cases h)

/-- whatever `make_private` accepts, validation accepts -/
theorem makePrivate_accepts_implies_independent (t : Tree) (opt : List Oid)
    (hacc : makePrivate repaired t opt = .ok ()) (hbuf : ∀ e ∈ t.named, bufWF e.2.info = true) : independent t :=
  accepts_implies_independent t ((makePrivate_ok_iff _ _ _).mp hacc).2.1 hbuf

/-- as coded: only for trees in which every normalisation layer owns a trainable parameter -/
theorem accepts_implies_independent_partial (t : Tree) (hacc : mvValidate asCoded t = [])
    (hbuf : ∀ e ∈ t.named, bufWF e.2.info = true)
    (hcov : ∀ e ∈ t.named, (isBN e.2.info.ty || isIN e.2.info.ty) = true → e.2.info.trainable = true) :
    independent t :=
  accepts_implies_independent_general asCoded t hacc hbuf (fun _ => hcov)

/-! ### witnesses -/

def linearLeaf (k : Nat) (name : String) : Tree :=
  ⟨{ name := .s name, oid := .orig k, ty := .linear,
     params := [⟨"weight", .orig (k+1), .tok (k+1), true⟩, ⟨"bias", .orig (k+2), .tok (k+2), true⟩] }, .nil⟩

def normLeaf (ty : Ty) (k : Nat) (name : String) (affine trs : Bool) (reqGrad : Bool := true) : Tree :=
  ⟨{ name := .s name, oid := .orig k, ty := ty, cfg := { numFeatures := 4, affine := affine, trs := trs },
     params := if affine then [⟨"weight", .orig (k+1), .tok (k+1), reqGrad⟩, ⟨"bias", .orig (k+2), .tok (k+2), reqGrad⟩] else [],
     buffers := if trs then [⟨"running_mean", .orig (k+3), .tok (k+3)⟩, ⟨"running_var", .orig (k+4), .tok (k+4)⟩,
                             ⟨"num_batches_tracked", .orig (k+5), .tok (k+5)⟩] else [] }, .nil⟩

def seq2 (a b : Tree) : Tree := ⟨{ oid := .orig 0, ty := .seq }, Forest.ofList [a, b]⟩

/-- `Sequential(Linear(4,4), BatchNorm1d(4, affine=False))` -/
def bnAffineFalse : Tree := seq2 (linearLeaf 1 "0") (normLeaf .bn1 4 "1" false true)
/-- `Sequential(Linear(4,4), BatchNorm1d(4).requires_grad_(False))` -/
def bnFrozen : Tree := seq2 (linearLeaf 1 "0") (normLeaf .bn1 4 "1" true true false)
/-- `Sequential(Linear(4,4), InstanceNorm1d(4, affine=False, track_running_stats=True))` -/
def inTrsNoAffine : Tree := seq2 (linearLeaf 1 "0") (normLeaf .in1 4 "1" false true)

/-- D3: accepted by both validators and by `make_private`, yet the BatchNorm couples the batch and
updates its running statistics; constructor-consistent buffers, so the full statement fails as coded -/
theorem bn_affine_false_counterexample :
    mvValidate asCoded bnAffineFalse = [] ∧ gsmValidate bnAffineFalse = 0 ∧
    makePrivate asCoded bnAffineFalse [.orig 2, .orig 3] = .ok () ∧
    (∀ e ∈ bnAffineFalse.named, bufWF e.2.info = true) ∧
    (∃ e ∈ bnAffineFalse.named, couples e.2.info = true ∧ updatesStats e.2.info = true) ∧
    mvValidate repaired bnAffineFalse = [.shouldReplace] := by
  refine ⟨by decide, by decide, by decide, by decide, by decide, by decide⟩

/-- D3 (frozen variant): `requires_grad_(False)` on a BatchNorm hides it from both validators -/
theorem bn_frozen_counterexample :
    mvValidate asCoded bnFrozen = [] ∧ makePrivate asCoded bnFrozen [.orig 2, .orig 3] = .ok () ∧
    (∀ e ∈ bnFrozen.named, bufWF e.2.info = true) ∧
    (∃ e ∈ bnFrozen.named, couples e.2.info = true ∧ updatesStats e.2.info = true) ∧
    mvValidate repaired bnFrozen = [.shouldReplace] := by
  refine ⟨by decide, by decide, by decide, by decide, by decide⟩

/-- D4: InstanceNorm with running statistics and no affine parameters is accepted -/
theorem in_trs_no_affine_counterexample :
    mvValidate asCoded inTrsNoAffine = [] ∧ makePrivate asCoded inTrsNoAffine [.orig 2, .orig 3] = .ok () ∧
    (∀ e ∈ inTrsNoAffine.named, bufWF e.2.info = true) ∧
    (∃ e ∈ inTrsNoAffine.named, couples e.2.info = false ∧ updatesStats e.2.info = true) ∧
    mvValidate repaired inTrsNoAffine = [.illegalConfig] := by
  refine ⟨by decide, by decide, by decide, by decide, by decide⟩

/-- the full statement is false for the code as it stands -/
theorem accepts_implies_independent_asCoded_fails :
    ¬ (∀ t : Tree, mvValidate asCoded t = [] → (∀ e ∈ t.named, bufWF e.2.info = true) → independent t) := by
  intro h
  have := h bnAffineFalse (by decide) (by decide) ([.s "1"], (normLeaf .bn1 4 "1" false true)) (by decide)
  revert this
  decide

/-- non-vacuity of the hypotheses of `accepts_implies_independent(_partial)`:
`Sequential(Linear, InstanceNorm1d(affine=True))` -/
example : mvValidate repaired (seq2 (linearLeaf 1 "0") (normLeaf .in1 4 "1" true false)) = [] ∧
    mvValidate asCoded (seq2 (linearLeaf 1 "0") (normLeaf .in1 4 "1" true false)) = [] ∧
    (∀ e ∈ (seq2 (linearLeaf 1 "0") (normLeaf .in1 4 "1" true false)).named, bufWF e.2.info = true) ∧
    (∀ e ∈ (seq2 (linearLeaf 1 "0") (normLeaf .in1 4 "1" true false)).named,
      (isBN e.2.info.ty || isIN e.2.info.ty) = true → e.2.info.trainable = true) := by
  refine ⟨by decide, by decide, by decide, by decide⟩


/-! ## `ModuleValidator.fix` -/

theorem mem_walked {v : Variant} {t : Tree} {e : Path × Tree} :
    e ∈ walked v t ↔ e ∈ t.named ∧ walkedP v e.2.info = true := by
  unfold walked walkedP
  cases v.walkAll <;> simp [trainableModules, List.mem_filter]

/-- **fix_then_validate_ok**: for every tree (sibling names distinct, root in training mode) and all
keyword options, whenever `fix` returns, its result passes `ModuleValidator.validate` -/
theorem fix_then_validate_ok (v : Variant) (kw : Kw) (t t' : Tree) (hw : t.WF) (htr : t.info.training = true)
    (h : fix v kw t = .ok t') : mvValidate v t' = [] := by
  unfold fix at h
  have h0 : InvV v (fixNames v t) (cloneModule 0 t) := by
    refine ⟨?_, htr, ?_⟩
    · simp only [Tree.WF, cloneModule, Tree.mapOid, Forest.wf_mapOid]; exact hw
    · intro q s hq hb
      simp only [fixNames, List.mem_map]
      refine ⟨(q, s), mem_walked.mpr ⟨mem_named_of_subAt hq, ?_⟩, rfl⟩
      simp only [badNode, Bool.and_eq_true] at hb
      exact hb.1
  obtain ⟨hw', htr', hbad⟩ := fixLoop_inv (InvV v) invV_fix invV_skip _ _ _ _ h0 h
  simp only [mvValidate, htr', if_true, List.nil_append, List.flatMap_eq_nil_iff]
  intro e he
  obtain ⟨hn, hwk⟩ := mem_walked.mp he
  have hsub := subAt_of_mem_named hw' hn
  by_cases hok : okNode e.2.info = true
  · exact okNode_iff.mp hok
  · have := hbad e.1 e.2 hsub (by simp [badNode, hwk, hok])
    cases this

/-- **fix_pure**: every module, parameter and buffer object of the result is fresh — `fix` never
returns (nor, therefore, mutates through its result) an object of its argument -/
theorem fix_pure (v : Variant) (kw : Kw) (t t' : Tree) (h : fix v kw t = .ok t') :
    ∀ o ∈ t'.oids, o.isOrig = false := by
  unfold fix at h
  have h0 : (cloneModule 0 t).all freshNode = true := by
    have hf : (fun i : Info => freshNode (i.mapOid (Oid.clone 0))) = fun _ => true := by
      funext i
      simp [freshNode, Info.oids, Info.mapOid, Oid.isOrig, List.all_map, Function.comp_def]
    simp only [cloneModule, Tree.mapOid, Tree.all, Bool.and_eq_true, Forest.all_mapOid, hf]
    constructor
    · exact congrFun hf t.info
    · generalize t.kids = k
      induction k with
      | nil => rfl
      | cons i kk r ihk ihr => simp [Forest.all, ihk, ihr]
  have hall : t'.all freshNode = true :=
    fixLoop_inv (fun _ w => w.all freshNode = true)
      (fun p ps w g m r w1 hI hm hty hf hr =>
        all_replaceAt freshNode_name hI (by
          have hr0 := (fixer_spec hf hty).2.2.2.2 (all_subAt hI hm)
          unfold installed
          split
          · rw [tree_all_setMode freshNode (fun _ _ => rfl)]; exact hr0
          · exact hr0) hr)
      (fun p ps w m hI _ _ => hI) _ _ _ _ h0 h
  intro o ho
  simp only [Tree.oids, List.mem_flatMap] at ho
  obtain ⟨e, he, hoe⟩ := ho
  have := all_named.mp hall e he
  simp only [freshNode, List.all_eq_true] at this
  simpa using this o hoe

/-- consequence: an optimizer built on the parameters of the *unfixed* model is refused after `fix` -/
theorem fix_then_old_optimizer_rejected (v v' : Variant) (kw : Kw) (t t' : Tree) (opt : List Oid)
    (h : fix v kw t = .ok t') (hopt : ∃ p ∈ opt, p.isOrig = true) :
    makePrivate v' t' opt = .error .valueError := by
  obtain ⟨p, hp, hpo⟩ := hopt
  apply rejects_foreign_optimizer_params
  refine ⟨p, hp, fun hmem => ?_⟩
  have : p ∈ t'.oids := by
    simp only [Tree.paramOids, List.mem_flatMap, List.mem_map] at hmem
    obtain ⟨e, he, q, hq, rfl⟩ := hmem
    simp only [Tree.oids, List.mem_flatMap]
    exact ⟨e, he, by simp only [Info.oids, List.mem_cons, List.mem_append, List.mem_map]; exact Or.inr (Or.inl ⟨q, hq, rfl⟩)⟩
  rw [fix_pure v kw t t' h p this] at hpo
  cases hpo

/-- `q` is neither at nor below a module that `fix` visits and has a fixer for -/
def untouched (v : Variant) (t : Tree) (q : Path) : Prop :=
  ∀ q0, q0 <+: q → ∀ i, infoAt q0 t = some i → ¬ (walkedP v i = true ∧ fixerKeys.contains i.ty = true)

/-- **fix_preserves_other_params**: a module that is not at or below a replaced one is, in the
result, at the same name the clone of what it was: same type, flags, mode, the same parameters and
buffers under the same names in the same order with the same values and `requires_grad` -/
theorem fix_preserves_other_params (v : Variant) (kw : Kw) (t t' : Tree) (hw : t.WF) (h : fix v kw t = .ok t')
    (q : Path) (hq : untouched v t q) : infoAt q t' = (infoAt q t).map (Info.mapOid (.clone 0)) := by
  unfold fix at h
  let Inv : List Path → Tree → Prop := fun ps w =>
    (∀ p ∈ ps, ∃ i, infoAt p t = some i ∧ walkedP v i = true) ∧
    ∀ q, untouched v t q → infoAt q w = (infoAt q t).map (Info.mapOid (.clone 0))
  have h0 : Inv (fixNames v t) (cloneModule 0 t) := by
    constructor
    · intro p hp
      simp only [fixNames, List.mem_map] at hp
      obtain ⟨e, he, rfl⟩ := hp
      obtain ⟨hn, hwk⟩ := mem_walked.mp he
      simp only [cloneModule, named_mapOid, List.mem_map] at hn
      obtain ⟨e0, he0, rfl⟩ := hn
      refine ⟨e0.2.info, ?_, by simpa [walkedP, Tree.mapOid] using hwk⟩
      simp only [infoAt, subAt_of_mem_named hw he0, Option.map_some]
    · intro q _
      simp only [infoAt, cloneModule, subAt_mapOid, Option.map_map]
      rfl
  have hfin := fixLoop_inv Inv
    (fun p ps w g m r w1 hI hm hty hf hr => by
      refine ⟨fun p' hp' => hI.1 p' (List.mem_cons_of_mem _ hp'), fun q hq => ?_⟩
      by_cases hpq : p <+: q
      · exfalso
        obtain ⟨i0, hi0, hwk⟩ := hI.1 p (List.mem_cons_self ..)
        have hp : untouched v t p := fun q0 hq0 => hq q0 (hq0.trans hpq)
        have := hI.2 p hp
        rw [hi0] at this
        simp only [infoAt, hm, Option.map_some, Option.some.injEq] at this
        refine hq p hpq i0 hi0 ⟨hwk, ?_⟩
        rw [this] at hty
        exact hty
      · rw [infoAt_replaceAt_other hr hpq]
        exact hI.2 q hq)
    (fun p ps w m hI _ _ => ⟨fun p' hp' => hI.1 p' (List.mem_cons_of_mem _ hp'), hI.2⟩) _ _ _ _ h0 h
  exact hfin.2 q hq

/-- **replace_root**: `_replace_sub_module` with the root's (empty) name returns the new module itself -/
theorem replace_root (root new : Tree) : replaceSub root [] new = some new := rfl

/-- … and so `fix` of a root-level replaceable layer returns the replacement, here
`fix(nn.LSTM(bias=True))` = DPLSTM with the LSTM's weights under the LSTM's names -/
def rootLSTM : Tree :=
  ⟨{ oid := .orig 0, ty := .lstm,
     params := [⟨"weight_ih_l0", .orig 1, .tok 1, true⟩, ⟨"weight_hh_l0", .orig 2, .tok 2, true⟩,
                ⟨"bias_ih_l0", .orig 3, .tok 3, true⟩, ⟨"bias_hh_l0", .orig 4, .tok 4, true⟩] }, .nil⟩

theorem replace_root_lstm :
    ∃ t', fix asCoded {} rootLSTM = .ok t' ∧ t'.info.ty = .dplstm ∧
      t'.info.params.map (·.name) = ["weight_ih_l0", "bias_ih_l0", "weight_hh_l0", "bias_hh_l0"] ∧
      t'.info.params.map (·.val) = [.tok 1, .tok 3, .tok 2, .tok 4] ∧
      mvValidate asCoded t' = [] ∧ gsmValidate t' = 0 :=
  ⟨_, rfl, by decide⟩

/-- the default BatchNorm → GroupNorm replacement never fails: `gcd(32, C)` divides `C` -/
theorem bn_default_groups_valid (g : Nat) (m : Tree) (hc : 0 < m.info.cfg.numFeatures) :
    ∃ r, fixBN {} g m = .ok r ∧ r.info.ty = .gn ∧ r.info.cfg.numGroups = Nat.gcd 32 m.info.cfg.numFeatures := by
  have h1 : Nat.gcd 32 m.info.cfg.numFeatures ≠ 0 := Nat.ne_of_gt (Nat.gcd_pos_of_pos_right _ hc)
  have h2 : m.info.cfg.numFeatures % Nat.gcd 32 m.info.cfg.numFeatures = 0 :=
    Nat.mod_eq_zero_of_dvd (Nat.gcd_dvd_right _ _)
  simp [fixBN, h1, h2, leaf]

/-! ### witnesses for D5 / D6 -/

/-- `InstanceNorm1d(4, affine=True, track_running_stats=True)` as root -/
def inTrsAffine : Tree := normLeaf .in1 0 "" true true

/-- D6: the "fixed" InstanceNorm passes `ModuleValidator.validate` but keeps its buffers: the engine's
strict check refuses it and its running statistics are still updated.  Repaired fixer: accepted and
independent. -/
theorem fixed_in_keeps_buffers_counterexample :
    (∃ t', fix asCoded {} inTrsAffine = .ok t' ∧ mvValidate asCoded t' = [] ∧ gsmValidate t' = 1 ∧
        updatesStats t'.info = true ∧ bufWF t'.info = false ∧
        makePrivate asCoded t' (t'.paramOids) = .error (.notImplemented 1)) ∧
    (∃ t', fix repaired {} inTrsAffine = .ok t' ∧ makePrivate repaired t' (t'.paramOids) = .ok () ∧
        nodeIndependent t'.info = true ∧ bufWF t'.info = true) :=
  ⟨⟨_, rfl, by decide⟩, ⟨_, rfl, by decide⟩⟩

/-- `Sequential(BatchNorm1d(4), LSTM(…))` -/
def bnThenLstm : Tree := seq2 (normLeaf .bn1 10 "0" true true) { rootLSTM with info := { rootLSTM.info with name := .s "1" } }

/-- D5: a documented keyword option makes `fix` raise `TypeError` as soon as the model contains a
trainable InstanceNorm / LSTM / MultiheadAttention; repaired fixers ignore it -/
theorem fix_kwargs_counterexample :
    fix asCoded { numGroups := some 1 } (normLeaf .in1 0 "" true false) = .error .typeError ∧
    fix asCoded { numGroups := some 2 } bnThenLstm = .error .typeError ∧
    (∃ t', fix repaired { numGroups := some 2 } bnThenLstm = .ok t' ∧ mvValidate repaired t' = [] ∧
        (infoAt [.s "0"] t').map (·.cfg.numGroups) = some 2) :=
  ⟨by decide, by decide, ⟨_, rfl, by decide⟩⟩

/-- non-vacuity of `fix_then_validate_ok` / `fix_preserves_other_params` on a tree with a replaced
and an untouched module: `Sequential(Linear, BatchNorm1d(4))` -/
example : (seq2 (linearLeaf 1 "0") (normLeaf .bn1 4 "1" true true)).WF ∧
    ∃ t', fix asCoded {} (seq2 (linearLeaf 1 "0") (normLeaf .bn1 4 "1" true true)) = .ok t' ∧
      (infoAt [.s "1"] t').map (·.ty) = some .gn ∧
      infoAt [.s "0"] t' = some ((linearLeaf 1 "0").info.mapOid (.clone 0)) :=
  ⟨by decide, _, rfl, by decide⟩

example : untouched asCoded (seq2 (linearLeaf 1 "0") (normLeaf .bn1 4 "1" true true)) [.s "0"] := by
  intro q0 hq0 i hi
  have : q0 = [] ∨ q0 = [.s "0"] := by
    rcases hq0 with ⟨r, hr⟩
    cases q0 with
    | nil => exact Or.inl rfl
    | cons a q0 =>
      right
      cases q0 with
      | nil => simp at hr; simp [hr.1]
      | cons b q0 => simp at hr
  rcases this with rfl | rfl <;> (simp [infoAt, subAt, seq2, Forest.ofList, Forest.find, linearLeaf] at hi; subst hi; decide)

/-! ## The mode of a replacement -/

theorem forest_all_mode (b : Bool) (k : Forest) : (k.setMode b).all (fun i => i.training == b) = true := by
  induction k with
  | nil => rfl
  | cons i kk r ihk ihr => simp [Forest.setMode, Forest.all, ihk, ihr]

/-- **replacement_keeps_mode** (repaired variant, fix f277a95): whatever the fixer built, the replacement `fix` installs –
the layer and everything below it – is in the mode (train / eval) of the layer it replaces; in particular an eval-mode
layer with dropout stays deterministic. -/
theorem replacement_keeps_mode (v : Variant) (hk : v.keepMode = true) (m r : Tree) :
    (installed v m r).all (fun i => i.training == m.info.training) = true := by
  simp [installed, hk, setMode, Tree.all, forest_all_mode]

/-- as coded (before the fix) the replacement is whatever the fixer built: a freshly constructed, training-mode layer -/
theorem replacement_as_built (v : Variant) (hk : v.keepMode = false) (m r : Tree) : installed v m r = r := by
  simp [installed, hk]

end Opacus.C15
