import OpacusLean.Model.ValidateTable
import OpacusLean.Generated.ValidatorTable
namespace Opacus.C15
open Opacus.Validate

/-! ## The code's finite tables, as extracted on this run -/

theorem generated_registry_matches_model :
    Generated.validatorKeys = validatorKeys ∧ Generated.fixerKeys = fixerKeys := by decide

theorem generated_table_complete : Generated.rows.map Row.key = tableDomain := by decide +kernel

theorem generated_table_matches_model : ∀ r ∈ Generated.rows, r.agrees Generated.variant = true := by
  have h : Generated.rows.all (fun r => r.agrees Generated.variant) = true := by decide +kernel
  exact List.all_eq_true.mp h

theorem rejects_foreign_optimizer_params (v : Variant) (t : Tree) (opt : List Oid)
    (h : ∃ p ∈ opt, p ∉ t.paramOids) : makePrivate v t opt = .error .valueError := by
  obtain ⟨p, hp, hn⟩ := h
  have : opt.any (fun p => !(t.paramOids.contains p)) = true := by
    rw [List.any_eq_true]; exact ⟨p, hp, by simpa using hn⟩
  unfold makePrivate
  rw [if_pos this]

theorem rejects_eval (v : Variant) (t : Tree) (opt : List Oid) (h : t.info.training = false) :
    ErrC.illegalConfig ∈ mvValidate v t ∧ makePrivate v t opt ≠ .ok () := by
  have h1 : ErrC.illegalConfig ∈ mvValidate v t := by simp [mvValidate, h]
  refine ⟨h1, ?_⟩
  unfold makePrivate
  split
  · simp
  · have : mvValidate v t ≠ [] := by intro h0; rw [h0] at h1; simp at h1
    simp [this]

def linearLeaf (k : Nat) (name : String) : Tree :=
  ⟨{ name := .s name, oid := .orig k, ty := .linear,
     params := [⟨"weight", .orig (k+1), .tok (k+1), true⟩, ⟨"bias", .orig (k+2), .tok (k+2), true⟩] }, .nil⟩

def bnAffineFalse : Tree :=
  ⟨{ oid := .orig 0, ty := .seq },
   Forest.ofList [linearLeaf 1 "0",
     ⟨{ name := .s "1", oid := .orig 4, ty := .bn1, cfg := { numFeatures := 4, affine := false, trs := true },
        buffers := [⟨"running_mean", .orig 5, .tok 5⟩, ⟨"running_var", .orig 6, .tok 6⟩, ⟨"num_batches_tracked", .orig 7, .tok 7⟩] }, .nil⟩]⟩

theorem bn_affine_false_counterexample :
    mvValidate asCoded bnAffineFalse = [] ∧ gsmValidate bnAffineFalse = 0 ∧
    makePrivate asCoded bnAffineFalse [.orig 2, .orig 3] = .ok () ∧
    (∃ e ∈ bnAffineFalse.named, couples e.2.info = true ∧ updatesStats e.2.info = true) := by
  refine ⟨by decide, by decide, by decide, ?_⟩
  decide
