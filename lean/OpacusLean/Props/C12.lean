import OpacusLean.Generated.GdpAnalysis
import OpacusLean.Generated.AcctStep
import OpacusLean.Lemmas.GdpMono
import OpacusLean.Lemmas.AcctHistoryRle
import OpacusLean.Lemmas.RdpMonoQ
import OpacusLean.Lemmas.GdpReal
import Mathlib.Analysis.Complex.ExponentialBounds
/-! # C12 — accountants are monotone and invariant to history order / run splitting

RDP accountant: theorems about `acctEpsilon` (the transcription of `RDPAccountant.get_epsilon`,
`Model/AcctHistory.lean`) at `ℝ`, on its regular domain: non-empty history, sample rates in [0,1],
noise multipliers > 0, integer orders ≥ 2 (any non-empty list of them), any `δ` (for the `δ`
theorem `δ > 0`), ANY oracle configuration `cfg` (irrelevant for integer orders).
`EpsLe x y` says: both calls succeed with finite values and the first is `≤` the second.

GDP: the `mu` formula and its monotonicity.  PRV: nothing is proved here (composition algebra
belongs to C07); the PRV accountant is covered by metamorphic search on the real code only. -/
namespace Opacus.C12
open Opacus.Rdp Opacus.Gdp

/-- both results are finite successes and ordered -/
def EpsLe (x y : Except Err (EV ℝ)) : Prop := ∃ v v', x = .ok (.fin v) ∧ y = .ok (.fin v') ∧ v ≤ v'

variable (cfg : Cfg ℝ)

private theorem epsLe_of {h h' : Hist ℝ} (hne : h ≠ []) (hg : GoodHist h) (hne' : h' ≠ []) (hg' : GoodHist h')
    {δ δ' : ℝ} {ns : List ℕ} (hns : ns ≠ []) (hn2 : ∀ n ∈ ns, 2 ≤ n)
    (hle : ∀ n ∈ ns, epsOf (totR h n) n δ ≤ epsOf (totR h' n) n δ') :
    EpsLe (acctEpsilon cfg h δ (ns.map .int)) (acctEpsilon cfg h' δ' (ns.map .int)) := by
  obtain ⟨v, he, hv⟩ := acctEpsilon_int cfg h hne hg δ ns hns hn2
  obtain ⟨v', he', hv'⟩ := acctEpsilon_int cfg h' hne' hg' δ' ns hns hn2
  exact ⟨v, v', he, he', acctEpsilon_int_unique hle hv hv'⟩

private theorem eps_eq_of {h h' : Hist ℝ} (hne : h ≠ []) (hg : GoodHist h) (hne' : h' ≠ []) (hg' : GoodHist h')
    {δ : ℝ} {ns : List ℕ} (hns : ns ≠ []) (hn2 : ∀ n ∈ ns, 2 ≤ n)
    (heq : ∀ n ∈ ns, totR h n = totR h' n) :
    acctEpsilon cfg h δ (ns.map .int) = acctEpsilon cfg h' δ (ns.map .int) := by
  obtain ⟨v, he, hv⟩ := acctEpsilon_int cfg h hne hg δ ns hns hn2
  obtain ⟨v', he', hv'⟩ := acctEpsilon_int cfg h' hne' hg' δ ns hns hn2
  have h1 : v ≤ v' := acctEpsilon_int_unique (fun n hn => by rw [heq n hn]) hv hv'
  have h2 : v' ≤ v := acctEpsilon_int_unique (fun n hn => by rw [heq n hn]) hv' hv
  rw [he, he', le_antisymm h1 h2]

/-- the RDP the model computes for one step is non-negative (`A_α ≥ 1`: every exponent `k²−k ≥ 0`) -/
theorem rdp_nonneg {q s : ℝ} (hq0 : 0 ≤ q) (hq1 : q ≤ 1) (hs : 0 < s) {n : ℕ} (hn : 2 ≤ n) :
    ∃ r, computeRdp1 cfg q s (.int n) = .ok (.fin r) ∧ 0 ≤ r :=
  ⟨rdpR q s n, computeRdp1_int cfg hq0 hq1 hs.ne' hn, rdpR_nonneg hq0 hq1 hs hn⟩

/-- **ε is non-decreasing in the number of steps**: one more `step()` call never lowers it
(from a NON-EMPTY history; from the empty history it can — see the counterexample below) -/
theorem eps_mono_steps {h : Hist ℝ} (hne : h ≠ []) (hg : GoodHist h) {s q : ℝ} (h0 : 0 ≤ q) (h1 : q ≤ 1)
    (hs : 0 < s) (δ : ℝ) {ns : List ℕ} (hns : ns ≠ []) (hn2 : ∀ n ∈ ns, 2 ≤ n) :
    EpsLe (acctEpsilon cfg h δ (ns.map .int)) (acctEpsilon cfg (step h s q) δ (ns.map .int)) := by
  apply epsLe_of cfg hne hg (step_ne_nil h s q) (goodHist_step hg h0 h1 hs) hns hn2
  intro n hn
  apply epsOf_mono_rdp
  rw [totR_eq_expand (step h s q), expand_step, List.map_append, List.sum_append, ← totR_eq_expand]
  have := rdpR_nonneg h0 h1 hs (hn2 n hn)
  simpa using this

example : ∃ h : Hist ℝ, h ≠ [] ∧ GoodHist h := ⟨[(1, 1/2, 3)], by simp, by
  intro e he; simp at he; subst he; norm_num⟩

/-- **ε is non-increasing in the noise multiplier** of any run (term-wise argument, integer orders) -/
theorem eps_antitone_sigma (h₁ h₂ : Hist ℝ) (hg₁ : GoodHist h₁) (hg₂ : GoodHist h₂) {s s' q : ℝ} (k : ℕ)
    (h0 : 0 ≤ q) (h1 : q ≤ 1) (hs : 0 < s) (hss : s ≤ s') (δ : ℝ) {ns : List ℕ} (hns : ns ≠ [])
    (hn2 : ∀ n ∈ ns, 2 ≤ n) :
    EpsLe (acctEpsilon cfg (h₁ ++ (s', q, k) :: h₂) δ (ns.map .int))
      (acctEpsilon cfg (h₁ ++ (s, q, k) :: h₂) δ (ns.map .int)) := by
  have hs' : 0 < s' := lt_of_lt_of_le hs hss
  have good : ∀ σ : ℝ, 0 < σ → GoodHist (h₁ ++ (σ, q, k) :: h₂) := by
    intro σ hσ e he
    rcases List.mem_append.mp he with he | he
    · exact hg₁ e he
    · rcases List.mem_cons.mp he with rfl | he
      · exact ⟨h0, h1, hσ⟩
      · exact hg₂ e he
  apply epsLe_of cfg (by simp) (good s' hs') (by simp) (good s hs) hns hn2
  intro n hn
  apply epsOf_mono_rdp
  rw [totR_append, totR_append, totR_cons, totR_cons]
  have := rdpR_antitone_sigma h0 h1 hs hss (hn2 n hn)
  have hk : (0 : ℝ) ≤ (k : ℝ) := Nat.cast_nonneg k
  have := mul_le_mul_of_nonneg_right this hk
  simp only
  linarith

/-- **ε is non-decreasing in the sample rate** of any run (integer orders, rates in [0,1]): the binomial
weights of `A_α` move towards larger `k` as `q` grows and the exponents `(k²−k)/(2σ²)` grow with `k`
(`binE_mono_q`, `sgmSum_mono_q`). -/
theorem eps_mono_q (h₁ h₂ : Hist ℝ) (hg₁ : GoodHist h₁) (hg₂ : GoodHist h₂) {s q q' : ℝ} (k : ℕ)
    (h0 : 0 ≤ q) (hqq : q ≤ q') (h1 : q' ≤ 1) (hs : 0 < s) (δ : ℝ) {ns : List ℕ} (hns : ns ≠ [])
    (hn2 : ∀ n ∈ ns, 2 ≤ n) :
    EpsLe (acctEpsilon cfg (h₁ ++ (s, q, k) :: h₂) δ (ns.map .int))
      (acctEpsilon cfg (h₁ ++ (s, q', k) :: h₂) δ (ns.map .int)) := by
  have good : ∀ r : ℝ, 0 ≤ r → r ≤ 1 → GoodHist (h₁ ++ (s, r, k) :: h₂) := by
    intro r hr0 hr1 e he
    rcases List.mem_append.mp he with he | he
    · exact hg₁ e he
    · rcases List.mem_cons.mp he with rfl | he
      · exact ⟨hr0, hr1, hs⟩
      · exact hg₂ e he
  apply epsLe_of cfg (by simp) (good q h0 (le_trans hqq h1)) (by simp) (good q' (le_trans h0 hqq) h1) hns hn2
  intro n hn
  apply epsOf_mono_rdp
  rw [totR_append, totR_append, totR_cons, totR_cons]
  have := rdpR_mono_q h0 hqq h1 hs (hn2 n hn)
  have hk : (0 : ℝ) ≤ (k : ℝ) := Nat.cast_nonneg k
  have := mul_le_mul_of_nonneg_right this hk
  simp only
  linarith

/-- **ε is non-increasing in δ** -/
theorem eps_antitone_delta {h : Hist ℝ} (hne : h ≠ []) (hg : GoodHist h) {δ δ' : ℝ} (hδ : 0 < δ)
    (hδδ : δ ≤ δ') {ns : List ℕ} (hns : ns ≠ []) (hn2 : ∀ n ∈ ns, 2 ≤ n) :
    EpsLe (acctEpsilon cfg h δ' (ns.map .int)) (acctEpsilon cfg h δ (ns.map .int)) := by
  apply epsLe_of cfg hne hg hne hg hns hn2
  intro n hn
  have : (1 : ℝ) < n := by exact_mod_cast (hn2 n hn)
  exact epsOf_antitone_delta _ this hδ hδδ

/-- **ε does not depend on the order of the history** -/
theorem eps_perm_invariant {h h' : Hist ℝ} (hp : h.Perm h') (hne : h ≠ []) (hg : GoodHist h) (δ : ℝ)
    {ns : List ℕ} (hns : ns ≠ []) (hn2 : ∀ n ∈ ns, 2 ≤ n) :
    acctEpsilon cfg h δ (ns.map .int) = acctEpsilon cfg h' δ (ns.map .int) := by
  have hne' : h' ≠ [] := fun e => hne (by simpa [e] using hp)
  have hg' : GoodHist h' := fun e he => hg e (hp.mem_iff.mpr he)
  exact eps_eq_of cfg hne hg hne' hg' hns hn2 (fun n _ => totR_perm hp n)

/-- **ε is unchanged by splitting a run** `(σ,q,n₁+n₂)` into `(σ,q,n₁),(σ,q,n₂)` (or merging) -/
theorem eps_run_split_invariant (h₁ h₂ : Hist ℝ) (hg₁ : GoodHist h₁) (hg₂ : GoodHist h₂) {s q : ℝ}
    (n₁ n₂ : ℕ) (h0 : 0 ≤ q) (h1 : q ≤ 1) (hs : 0 < s) (δ : ℝ) {ns : List ℕ} (hns : ns ≠ [])
    (hn2 : ∀ n ∈ ns, 2 ≤ n) :
    acctEpsilon cfg (h₁ ++ (s, q, n₁ + n₂) :: h₂) δ (ns.map .int)
      = acctEpsilon cfg (h₁ ++ (s, q, n₁) :: (s, q, n₂) :: h₂) δ (ns.map .int) := by
  have g1 : GoodHist (h₁ ++ (s, q, n₁ + n₂) :: h₂) := by
    intro e he
    rcases List.mem_append.mp he with he | he
    · exact hg₁ e he
    · rcases List.mem_cons.mp he with rfl | he
      · exact ⟨h0, h1, hs⟩
      · exact hg₂ e he
  have g2 : GoodHist (h₁ ++ (s, q, n₁) :: (s, q, n₂) :: h₂) := by
    intro e he
    rcases List.mem_append.mp he with he | he
    · exact hg₁ e he
    · rcases List.mem_cons.mp he with rfl | he
      · exact ⟨h0, h1, hs⟩
      · rcases List.mem_cons.mp he with rfl | he
        · exact ⟨h0, h1, hs⟩
        · exact hg₂ e he
  apply eps_eq_of cfg (by simp) g1 (by simp) g2 hns hn2
  intro n _
  rw [totR_append, totR_append, totR_cons, totR_cons, totR_cons]
  push_cast
  ring

/-- the run-length encoding is faithful: replaying `step` over any sequence of per-step
parameters yields a history that stands for exactly that sequence -/
theorem rle_expand (xs : List (ℝ × ℝ)) : expand (steps [] xs) = xs := by
  rw [expand_steps]; simp [expand]

/-- **recording `n` steps one at a time = recording one run of `n`** -/
theorem step_one_at_a_time_eq_run {h : Hist ℝ} (hg : GoodHist h) {s q : ℝ} (h0 : 0 ≤ q) (h1 : q ≤ 1)
    (hs : 0 < s) (k : ℕ) (δ : ℝ) {ns : List ℕ} (hns : ns ≠ []) (hn2 : ∀ n ∈ ns, 2 ≤ n) :
    acctEpsilon cfg (steps h (List.replicate (k + 1) (s, q))) δ (ns.map .int)
      = acctEpsilon cfg (h ++ [(s, q, k + 1)]) δ (ns.map .int) := by
  have hgood : ∀ m, GoodHist (steps h (List.replicate m (s, q))) := by
    intro m
    induction m generalizing h with
    | zero => simpa [steps] using hg
    | succ m ih =>
      have : steps h (List.replicate (m + 1) (s, q)) = steps (step h s q) (List.replicate m (s, q)) := rfl
      rw [this]; exact ih (goodHist_step hg h0 h1 hs)
  have hne : steps h (List.replicate (k + 1) (s, q)) ≠ [] := by
    intro e
    have := congrArg expand e
    rw [expand_steps] at this
    simp [expand, List.replicate_succ] at this
  have g2 : GoodHist (h ++ [(s, q, k + 1)]) := by
    intro e he
    rcases List.mem_append.mp he with he | he
    · exact hg e he
    · simp at he; subst he; exact ⟨h0, h1, hs⟩
  apply eps_eq_of cfg hne (hgood _) (by simp) g2 hns hn2
  intro n _
  apply totR_congr_expand
  rw [expand_steps, expand_append, expand_singleton]

/-- sample rate 1 is the plain Gaussian mechanism: RDP `α/(2σ²)` at every finite order -/
theorem q_one_is_gaussian (s : ℝ) (hs : s ≠ 0) (a : ℝ) :
    computeRdp1 cfg 1 s (.frac a) = .ok (.fin (a / (2 * (s * s))))
      ∧ ∀ n : ℕ, computeRdp1 cfg 1 s (.int n) = .ok (.fin ((n : ℝ) / (2 * (s * s)))) := by
  constructor
  · simp [computeRdp1, hs, Order.val?]
  · intro n; simp [computeRdp1, hs, Order.val?]

/-- **the command-line script agrees with the RDP accountant**: `compute_dp_sgd_privacy` returns
what `RDPAccountant.get_privacy_spent` returns on the one-run history
`(σ, q, epochs·⌈1/q⌉)` — for every order list (fractional orders included) and every oracle. -/
theorem script_eq_accountant {q : ℝ} (hq0 : 0 < q) (hq1 : q ≤ 1) (s δ : ℝ) (epochs : ℕ)
    (os : List (Order ℝ)) :
    script cfg q s epochs δ os = acctPrivacySpent cfg [(s, q, scriptSteps q epochs)] δ os := by
  have hm : mapE (histRdp cfg [(s, q, scriptSteps q epochs)]) os
      = computeRdp cfg q s (scriptSteps q epochs) os := by
    unfold computeRdp
    apply mapE_congr
    intro a
    unfold histRdp histRdpFrom
    cases computeRdp1 cfg q s a with
    | error e => rfl
    | ok r => simp only [histRdpFrom, ofNat_real, Nat.cast_zero, fin_zero_add]
  have h1 : ¬ (1 : ℝ) < q := not_lt.mpr hq1
  unfold script acctPrivacySpent
  simp only [lt_real, ofNat_real, Nat.cast_one, h1, decide_false, Bool.false_eq_true, if_false,
    beq_real, Nat.cast_zero, hq0.ne', List.isEmpty_cons, hm]

example : ∃ q : ℝ, 0 < q ∧ q ≤ 1 := ⟨1 / 100, by norm_num, by norm_num⟩

/-- **counterexample (finding C12:rdp:eps-decreases-from-empty-history)**: from the EMPTY history
the reported ε can go DOWN when a step is recorded: the code returns the literal `0` for an empty
history but never clamps the conversion at 0.  Witness: δ = 1/2, σ = 5, q = 1/100, orders = [2]:
ε(∅) = 0, ε(one step) = log(1 + q²(e^{1/σ²} − 1)) − log 2 < 0. -/
theorem eps_decreases_from_empty_counterexample :
    acctEpsilon cfg [] (1 / 2) [.int 2] = .ok (.fin 0)
      ∧ ∃ v, acctEpsilon cfg (step [] 5 (1 / 100)) (1 / 2) [.int 2] = .ok (.fin v) ∧ v < 0 := by
  constructor
  · simp [acctEpsilon, acctPrivacySpent, Except.map]
  · have hg : GoodHist (step ([] : Hist ℝ) 5 (1 / 100)) :=
      goodHist_step (fun _ h => by simp at h) (by norm_num) (by norm_num) (by norm_num)
    obtain ⟨v, he, ⟨n, hn, hv⟩, _⟩ := acctEpsilon_int cfg _ (step_ne_nil [] 5 (1 / 100)) hg (1 / 2) [2]
      (by simp) (by simp)
    refine ⟨v, he, ?_⟩
    simp only [List.mem_singleton] at hn
    subst hn
    rw [hv]
    have hstep : step ([] : Hist ℝ) 5 (1 / 100) = [(5, 1 / 100, 1)] := rfl
    rw [hstep, totR_cons, totR_nil]
    have hq : (1 / 100 : ℝ) ≠ 0 := by norm_num
    have hq1 : (1 / 100 : ℝ) ≠ 1 := by norm_num
    simp only [rdpR, hq, hq1, if_false]
    -- A_2 = 1 + q²(e^{1/σ²} − 1)
    have hA : sgmSum (1 / 100) (5 * 5) 2 = 1 + (1 / 100) ^ 2 * (Real.exp (1 / 25) - 1) := by
      unfold sgmSum sgmTerm
      simp [Finset.sum_range_succ]
      norm_num
      ring_nf
    have he1 : Real.exp (1 / 25) ≤ 3 := by
      have : Real.exp (1 / 25) ≤ Real.exp 1 := Real.exp_le_exp.mpr (by norm_num)
      have h3 := Real.exp_one_lt_d9
      linarith
    have hx : (1 / 100 : ℝ) ^ 2 * (Real.exp (1 / 25) - 1) ≤ 1 / 1000 := by nlinarith [Real.exp_pos (1 / 25 : ℝ)]
    have hx0 : 0 ≤ (1 / 100 : ℝ) ^ 2 * (Real.exp (1 / 25) - 1) := by
      have : 1 ≤ Real.exp (1 / 25) := Real.one_le_exp (by norm_num)
      have : 0 ≤ Real.exp (1 / 25) - 1 := by linarith
      positivity
    have hlog : Real.log (sgmSum (1 / 100) (5 * 5) 2) ≤ 1 / 1000 := by
      rw [hA]
      have := Real.log_le_sub_one_of_pos (show 0 < 1 + (1 / 100 : ℝ) ^ 2 * (Real.exp (1 / 25) - 1) by linarith)
      linarith
    have hl2 := Real.log_two_gt_d9
    unfold epsOf
    have h12 : Real.log (1 / 2 : ℝ) = -Real.log 2 := by rw [one_div, Real.log_inv]
    have h21 : Real.log ((((2 : ℕ) : ℝ) - 1) / ((2 : ℕ) : ℝ)) = -Real.log 2 := by
      rw [show ((((2 : ℕ) : ℝ) - 1) / ((2 : ℕ) : ℝ)) = (2 : ℝ)⁻¹ by norm_num, Real.log_inv]
    rw [h12, h21]
    push_cast
    norm_num
    linarith

/-- GDP: the coded `mu` equals the central-limit formula `q·√(T·(e^{1/σ²}−1))` -/
theorem mu_formula (steps : ℕ) (s q : ℝ) :
    muPoisson steps s q = q * Real.sqrt ((steps : ℝ) * (Real.exp (1 / (s * s)) - 1)) :=
  muPoisson_formula steps s q

/-- GDP: `mu` is non-decreasing in the number of steps and in the sample rate, non-increasing in
the noise multiplier -/
theorem mu_mono {n n' : ℕ} {s s' q q' : ℝ} (hn : n ≤ n') (hq0 : 0 ≤ q) (hq : q ≤ q') (hs : 0 < s')
    (hss : s' ≤ s) : muPoisson n s q ≤ muPoisson n' s' q' :=
  calc muPoisson n s q ≤ muPoisson n' s q := muPoisson_mono_steps hn s hq0
    _ ≤ muPoisson n' s q' := muPoisson_mono_q n' s hq
    _ ≤ muPoisson n' s' q' := muPoisson_antitone_sigma n' hs hss (le_trans hq0 hq)

/-! ## GDP: uniqueness and monotonicity of the root `eps_from_mu` solves for -/
section gdpRoot
open Opacus.GdpMono

/-- the model's `delta_eps_mu`, instantiated over ℝ with the standard normal CDF -/
theorem deltaEpsMu_real (ε μ : ℝ) : deltaEpsMu Phi ε μ = D Phi ε μ := rfl

/-- **GDP: the ε that `eps_from_mu` solves for is unique** (so "a root, checked by its residual" pins the
value down) -/
theorem gdp_eps_unique {μ δ ε₁ ε₂ : ℝ} (hμ : μ ≠ 0)
    (h1 : rootResidual Phi μ δ ε₁ = 0) (h2 : rootResidual Phi μ δ ε₂ = 0) : ε₁ = ε₂ := by
  have e1 : D Phi ε₁ μ = δ := by have := h1; unfold rootResidual at this; rw [deltaEpsMu_real] at this; exact sub_eq_zero.mp this
  have e2 : D Phi ε₂ μ = δ := by have := h2; unfold rootResidual at this; rw [deltaEpsMu_real] at this; exact sub_eq_zero.mp this
  exact Opacus.GdpMono.root_unique gaussLike_Phi hμ e1 e2

/-- **GDP: ε is non-increasing in δ** -/
theorem gdp_eps_antitone_delta {μ δ δ' ε ε' : ℝ} (hμ : μ ≠ 0) (hd : δ ≤ δ')
    (h1 : rootResidual Phi μ δ ε = 0) (h2 : rootResidual Phi μ δ' ε' = 0) : ε' ≤ ε := by
  have e1 : D Phi ε μ = δ := by have := h1; unfold rootResidual at this; rw [deltaEpsMu_real] at this; exact sub_eq_zero.mp this
  have e2 : D Phi ε' μ = δ' := by have := h2; unfold rootResidual at this; rw [deltaEpsMu_real] at this; exact sub_eq_zero.mp this
  exact Opacus.GdpMono.eps_antitone_delta gaussLike_Phi hμ e1 e2 hd

/-- **GDP: ε is non-decreasing in the number of steps and in the sample rate, non-increasing in the noise
multiplier** – through `mu` (`mu_mono`) and the strict monotonicity of the Gaussian-DP curve in `μ` -/
theorem gdp_eps_mono {n n' : ℕ} {s s' q q' δ ε ε' : ℝ} (hn : n ≤ n') (hq0 : 0 ≤ q) (hq : q ≤ q') (hs : 0 < s')
    (hss : s' ≤ s) (hpos : 0 < muPoisson n s q)
    (h1 : rootResidual Phi (muPoisson n s q) δ ε = 0)
    (h2 : rootResidual Phi (muPoisson n' s' q') δ ε' = 0) : ε ≤ ε' := by
  have e1 : D Phi ε (muPoisson n s q) = δ := by
    have := h1; unfold rootResidual at this; rw [deltaEpsMu_real] at this; exact sub_eq_zero.mp this
  have e2 : D Phi ε' (muPoisson n' s' q') = δ := by
    have := h2; unfold rootResidual at this; rw [deltaEpsMu_real] at this; exact sub_eq_zero.mp this
  exact Opacus.GdpMono.eps_mono_mu gaussLike_Phi hpos (mu_mono hn hq0 hq hs hss) e1 e2

/-- premises satisfiable: `mu > 0` for a real configuration, and the curve does take every value between
its limits – here simply: at `ε = 0` the residual for `δ = δ(0, μ)` vanishes -/
example : 0 < muPoisson 100 (1 : ℝ) (1 / 100) ∧
    rootResidual Phi (muPoisson 100 (1 : ℝ) (1 / 100)) (D Phi 0 (muPoisson 100 (1 : ℝ) (1 / 100))) 0 = 0 := by
  refine ⟨?_, ?_⟩
  · rw [mu_formula]
    have : (0 : ℝ) < Real.exp (1 / (1 * 1)) - 1 := by
      have := Real.add_one_lt_exp (show (1 / (1 * 1) : ℝ) ≠ 0 by norm_num)
      linarith
    positivity
  · unfold rootResidual; rw [deltaEpsMu_real]; ring

end gdpRoot

/-! ## The tie to the source: `analysis/gdp.py` re-translated on every run -/
/-- closes `generated = model` over ℝ up to harmless rewrites (literal spelling `x ** (-2)` vs `1/(x*x)`, `1.5` vs `3/2`,
operand order, association) -/
macro "gdp_close" : tactic =>
  `(tactic| first
    | rfl
    | (norm_num; done)
    | (norm_num <;> simp <;> done)
    | (norm_num; ring_nf; done)
    | (simp only [sq, one_div, mul_inv_rev]; norm_num <;> first | done | ring_nf | (simp <;> ring_nf)))

/-- the tie to the source: `compute_mu_poisson`, `compute_mu_uniform` and `delta_eps_mu`, re-translated from
`opacus/accountants/analysis/gdp.py` on every run, are the model's functions over ℝ -/
theorem generated_gdp_eq_model (phi : ℝ → ℝ) (steps : ℕ) (s q ε μ : ℝ) :
    Opacus.Generated.Gdp.computeMuPoisson (steps : ℝ) s q = muPoisson steps s q ∧
    Opacus.Generated.Gdp.computeMuUniform phi (steps : ℝ) s q = muUniform phi steps s q ∧
    Opacus.Generated.Gdp.deltaEpsMu phi ε μ = deltaEpsMu phi ε μ := by
  refine ⟨?_, ?_, ?_⟩
  · show _ = Real.sqrt (Real.exp (((1 : ℕ) : ℝ) / (s * s)) - ((1 : ℕ) : ℝ)) * Real.sqrt ((steps : ℕ) : ℝ) * q
    simp only [Opacus.Generated.Gdp.computeMuPoisson]
    gdp_close
  · show _ = Real.sqrt (((2 : ℕ) : ℝ)) * (q * Real.sqrt ((steps : ℕ) : ℝ)) *
      Real.sqrt (Real.exp (((1 : ℕ) : ℝ) / (s * s)) * phi (((3 : ℕ) : ℝ) / ((2 : ℕ) : ℝ) / s)
        + ((3 : ℕ) : ℝ) * phi (-(((1 : ℕ) : ℝ) / ((2 : ℕ) : ℝ)) / s) - ((2 : ℕ) : ℝ))
    simp only [Opacus.Generated.Gdp.computeMuUniform]
    gdp_close
  · show _ = phi (-ε / μ + μ / ((2 : ℕ) : ℝ)) - Real.exp ε * phi (-ε / μ - μ / ((2 : ℕ) : ℝ))
    simp only [Opacus.Generated.Gdp.deltaEpsMu]
    gdp_close

/-- the tie to the source for the ledger the order / splitting theorems are about: `RDPAccountant.step`,
`PRVAccountant.step`, `GaussianAccountant.step`, re-translated on every run (`Generated/AcctStep.lean`), are the
model's `step` / `gdpStep` at ℝ (`none` = the method raises) -/
theorem generated_acct_step_eq_model (h : Hist ℝ) (s q : ℝ) :
    Opacus.Generated.Acct.rdpStep h s q = some (step h s q) ∧
    Opacus.Generated.Acct.prvStep h s q = some (step h s q) ∧
    Opacus.Generated.Acct.gdpStep h s q = (Opacus.Rdp.gdpStep h s q).toOption := by
  have hc : h = [] ∨ ∃ l a, h = l ++ [a] := by
    rcases List.eq_nil_or_concat h with h | ⟨l, a, h⟩
    · exact Or.inl h
    · exact Or.inr ⟨l, a, by simpa using h⟩
  rcases hc with rfl | ⟨l, ⟨a, b, n⟩, rfl⟩
  · simp [Opacus.Generated.Acct.rdpStep, Opacus.Generated.Acct.prvStep, Opacus.Generated.Acct.gdpStep, step,
      Opacus.Rdp.gdpStep, Except.toOption]
  · by_cases h1 : a = s <;> by_cases h2 : b = q <;>
      simp [Opacus.Generated.Acct.rdpStep, Opacus.Generated.Acct.prvStep, Opacus.Generated.Acct.gdpStep, step,
        Opacus.Rdp.gdpStep, Except.toOption, beq_real, h1, h2]

end Opacus.C12
