/-! GENERATED – float bookkeeping (privacy_engine.py, accountants/utils.py, utils/uniform_sampler.py) is outside the translator's subset: float bookkeeping expression: len(self.dataset) -/
namespace Opacus.Generated.Float
end Opacus.Generated.Float
