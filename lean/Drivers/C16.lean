import OpacusLean.Model.Checkpoint
/-! driver for C16 (Float instance of `OpacusLean.Model.Checkpoint`).  Requests:
  `new <mech> <sigma> <clip> <q> <nkind…> <ckind…>`   kinds as in driver C17: `none` | `exp g` | `step g s` | `lam n f0 … f(n-1)`
  `log <b>` | `skip <b>` | `ns` | `cs`                 training ops
  `save`                                               checkpoint of the current state
  `load <asCoded|repaired>`                            fresh objects from the same configuration, then load_checkpoint
  `loadinto <mech>`                                    load the checkpoint into a fresh engine of another accountant
  `loadbad <empty|nohist|nomech>`                      load a checkpoint whose accountant state lacks keys
  `sd`                                                 `accountant.state_dict()` kept as an object; reply = its history
  `sdhist` | `dicthist`                                history now visible through that dict / through the dict returned by the last load
  `loadsd`                                             `accountant.load_state_dict(<the kept dict>)`
Replies: the observable state
  `S <sigma> C <clip> H <k> (<sigma> <q> <n>)* N <last_epoch|-> K <last_epoch|-> I <inner steps> P <k> (<b> <clip>)* L <k> [last release: <m> (<b> <clip>)* <sigma> <clip>]`  (k = number of releases folded into the parameters)
or `err:<kind>` / `bad-op` / `bad-state`. -/
open Opacus Opacus.Proto Opacus.Checkpoint
open Opacus.Sched (Kind Sched construct)

abbrev Log := List (List (Nat × Float) × Float × Float)
abbrev E := Eng Float Log Nat Nat
abbrev C := Cfg Float Log Nat

def logTrain : Train Float Log Nat Nat := fun p o bs σ c => (p ++ [(bs, σ, c)], o + 1)

def parseKind (base : Float) : List String → Option (Option (Kind Float) × List String)
  | "none" :: r => some (none, r)
  | "exp" :: g :: r => do let g ← float? g; pure (some (.exp g), r)
  | "step" :: g :: s :: r => do let g ← float? g; let s ← s.toNat?; pure (some (.step g s), r)
  | "lam" :: r => do
      let (tab, r') ← takeList? float? r
      pure (some (.lam base (fun e => tab.getD e.toNat 0.0)), r')
  | _ => none

def mech? : String → Option Mech
  | "rdp" => some .rdp | "gdp" => some .gdp | "prv" => some .prv | _ => none

def errStr : Err → String
  | .gdpHeterogeneous => "err:gdp-heterogeneous"
  | .emptyState => "err:empty-state"
  | .missingHistory => "err:missing-history"
  | .missingMechanism => "err:missing-mechanism"
  | .mechanismMismatch => "err:mechanism-mismatch"

def histStr (h : List (Entry Float)) : String :=
  s!"H {h.length}" ++ String.join (h.map fun (s, q, n) => s!" {floatHex s} {floatHex q} {n}")

def pendStr (p : List (Nat × Float)) : String :=
  s!"{p.length}" ++ String.join (p.map fun (b, c) => s!" {b} {floatHex c}")

def epochStr : Option (Sched Float) → String
  | some s => toString s.lastEpoch
  | none => "-"

def obsStr (e : E) : String :=
  s!"S {floatHex e.sigma} C {floatHex e.clip} {histStr e.history} N {epochStr e.ns} K {epochStr e.cs} I {e.inner} P {pendStr e.pending} L {e.params.length}"
    ++ (match e.params.getLast? with | some (bs, s, c) => s!" {pendStr bs} {floatHex s} {floatHex c}" | none => "")

structure D where
  cfg : Option C
  e : E
  saved : Option (Ckpt Float Log Nat)
  dict : Option SDObj
  sd : Option SDObj

def cfg0 : C := ⟨0, 0, 0, none, none, .rdp, [], 0⟩
def init : D := ⟨none, fresh cfg0, none, none, none⟩

def doOp (d : D) (op : Op Nat) : D × String :=
  match d.e.step logTrain op with
  | .ok e' => ({ d with e := e' }, obsStr e')
  | .error er => (d, errStr er)

def stepLine (d : D) (line : String) : D × String :=
  match words line with
  | "new" :: m :: s :: c :: q :: rest =>
    match mech? m, float? s, float? c, float? q with
    | some m, some s, some c, some q =>
      match parseKind s rest with
      | some (nk, rest') =>
        match parseKind c rest' with
        | some (ck, []) =>
          let cfg : C := ⟨s, c, q, nk, ck, m, [], 0⟩
          let e : E := fresh cfg
          (⟨some cfg, e, none, none, none⟩, obsStr e)
        | _ => (d, "bad-op")
      | none => (d, "bad-op")
    | _, _, _, _ => (d, "bad-op")
  | ["log", b] => match b.toNat? with | some b => doOp d (.logical b) | none => (d, "bad-op")
  | ["skip", b] => match b.toNat? with | some b => doOp d (.skip b) | none => (d, "bad-op")
  | ["ns"] => doOp d .noiseSched
  | ["cs"] => doOp d .clipSched
  | ["save"] => ({ d with saved := some (save .repaired d.e) }, "ok")
  | ["load", v] =>
    match d.cfg, d.saved, (if v = "asCoded" then some Variant.asCoded else if v = "repaired" then some .repaired else none) with
    | some cfg, some ck, some v =>
      let ck' := match v with | .asCoded => { ck with live := none } | .repaired => ck
      match load (fresh cfg : E) ck' with
      | .ok (e', sdo) => ({ d with e := e', dict := some sdo, sd := none }, obsStr e')
      | .error er => (d, errStr er)
    | _, _, _ => (d, "bad-state")
  | ["loadinto", m] =>
    match d.cfg, d.saved, mech? m with
    | some cfg, some ck, some m =>
      match load (fresh { cfg with mech := m } : E) { ck with live := none } with
      | .ok (e', sdo) => ({ d with e := e', cfg := some { cfg with mech := m }, dict := some sdo }, obsStr e')
      | .error er => (d, errStr er)
    | _, _, _ => (d, "bad-state")
  | ["loadbad", what] =>
    match d.cfg, d.saved with
    | some cfg, some ck =>
      let acct : Option (AcctSD Float) := match what with
        | "empty" => some ⟨none, none⟩
        | "nohist" => some ⟨none, ck.acct.mechanism⟩
        | "nomech" => some ⟨ck.acct.history, none⟩
        | _ => none
      match acct with
      | some a =>
        match load (fresh cfg : E) { ck with acct := a, live := none } with
        | .ok (e', sdo) => ({ d with e := e', dict := some sdo }, obsStr e')
        | .error er => (d, errStr er)
      | none => (d, "bad-op")
    | _, _ => (d, "bad-state")
  | ["sd"] =>
    let r := d.e.acct.stateDict d.e.heap
    ({ d with e := { d.e with heap := r.2 }, sd := some r.1 },
      match r.1.href with | some hr => histStr (r.2.get hr) | none => "bad-state")
  | ["sdhist"] =>
    match d.sd with
    | some ⟨some hr, _⟩ => (d, histStr (d.e.heap.get hr))
    | _ => (d, "bad-state")
  | ["dicthist"] =>
    match d.dict with
    | some ⟨some hr, _⟩ => (d, histStr (d.e.heap.get hr))
    | _ => (d, "bad-state")
  | ["loadsd"] =>
    match d.sd with
    | some sdo =>
      match d.e.acct.loadStateDict sdo with
      | .ok a => let e' := { d.e with acct := a }; ({ d with e := e' }, obsStr e')
      | .error er => (d, errStr er)
    | none => (d, "bad-state")
  | _ => (d, "bad-op")

def main : IO Unit := runLines stepLine init
