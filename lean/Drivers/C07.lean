import OpacusLean.Model.Prv
/-! driver for C07.  Two stores of named discrete PRVs: `f…` requests use the `Float` instance,
`i…` requests the `Int` instance (exact channel: integer pmfs, domain fields as scaled integers).

  `fput s tMin tMax size shifts n p0 … p(n-1)`      store a DiscretePRV           → `ok`
  `fget s`                                          → `tMin tMax size shifts n p0 …`
  `ffourier dst src n`     `_compose_fourier`       → `ok` | `err:…`
  `ftwo dst l r`           `_compose_two`           → `ok`
  `ftree dst k s1 … sk`    `_compose_convolution_tree` → `ok` | `err:…`
  `fhetero dst k s1 n1 … sk nk`  `compose_heterogeneous` → `ok` | `err:…`
  (same with prefix `i`; integers in decimal)
  `aligned tMin tMax dt`   `Domain.create_aligned`  → `tMin tMax size` | `err:…`
  `mesh epsErr deltaErr total`                      → `<float>`
  `domain L epsErr deltaErr total`  `_get_domain`   → `tMin tMax size` | `err:…`
  `disc dst tMin tMax size meanC n cdfR… n cdfL…`  `discretize`  → `ok` | `err:…`
  `eps s delta deltaErr epsErr`  `compute_epsilon`  → `inf` | `lo est hi` | `err:…`
  `epsx s delta deltaErr epsErr n t… n exp(t)… n exp(-t)…`   same, `exp` taken from the supplied
        table (NumPy's values) so that every remaining operation is a single IEEE operation and the
        comparison against NumPy is bit-for-bit on the searchsorted index (tie cases)
  `dest s eps`             `compute_delta_estimate` → `<float>`
  `ssl n a… key`           `searchsorted(side=left)`→ `<nat>`
-/
open Opacus Opacus.Proto Opacus.Prv

instance : NatCast Float := ⟨Float.ofNat⟩
instance : IntCast Float := ⟨Float.ofInt⟩
instance : Zero Float := ⟨0.0⟩
instance : One Float := ⟨1.0⟩

def toI (x : Float) : Int := if x < 0 then - ((-x).toUInt64.toNat : Int) else (x.toUInt64.toNat : Int)

/-- `np.round`: round half to even -/
def rint (x : Float) : Float :=
  let f := x.floor
  let d := x - f
  if d < 0.5 then f else if d > 0.5 then f + 1
  else if (toI f) % 2 = 0 then f else f + 1

instance instAnalyticFloat : Analytic Float where
  exp := Float.exp
  log := Float.log
  sqrt := Float.sqrt
  abs := Float.abs
  floor := fun x => toI x.floor
  ceil := fun x => toI x.ceil
  round := fun x => toI (rint x)

/-- `exp` by table lookup on the bit pattern (falls back to `Float.exp`) -/
@[instance_reducible] def tableAnalytic (tbl : List (UInt64 × Float)) : Analytic Float :=
  { instAnalyticFloat with
    exp := fun x => match tbl.find? (fun e => e.1 == x.toBits) with
      | some e => e.2
      | none => Float.exp x }

structure Chan (R : Type) where
  parse : String → Option R
  str : R → String

def fch : Chan Float := ⟨float?, floatHex⟩
def ich : Chan Int := ⟨String.toInt?, toString⟩

abbrev Store (R : Type) := List (String × DPrv R)
def Store.get? {R} (s : Store R) (k : String) : Option (DPrv R) := (s.find? (·.1 == k)).map (·.2)
def Store.put {R} (s : Store R) (k : String) (v : DPrv R) : Store R := (k, v) :: s.filter (·.1 != k)

def exc {R} (st : Store R) (dst : String) : Except Err (DPrv R) → Store R × String
  | .ok v => (st.put dst v, "ok")
  | .error e => (st, e.str)

/-- requests common to both channels (prefix already stripped) -/
def composeOp {R} [Zero R] [One R] [Add R] [Mul R] [IntCast R] (ch : Chan R) (st : Store R) :
    List String → Option (Store R × String)
  | "put" :: s :: a :: b :: sz :: sh :: rest => do
      let a ← ch.parse a; let b ← ch.parse b; let sz ← sz.toNat?; let sh ← ch.parse sh
      let (p, r) ← takeList? ch.parse rest
      if r ≠ [] then none else pure (st.put s ⟨p.toArray, ⟨a, b, sz, sh⟩⟩, "ok")
  | ["get", s] => do
      let d ← st.get? s
      pure (st, s!"{ch.str d.dom.tMin} {ch.str d.dom.tMax} {d.dom.size} {ch.str d.dom.shifts} {d.pmf.size} " ++
        " ".intercalate (d.pmf.toList.map ch.str))
  | ["fourier", dst, src, n] => do
      let d ← st.get? src; let n ← n.toNat?
      pure (exc st dst (composeFourier d n))
  | ["two", dst, l, r] => do
      let l ← st.get? l; let r ← st.get? r
      pure (st.put dst (composeTwo l r), "ok")
  | "tree" :: dst :: rest => do
      let (ks, r) ← takeList? some rest
      if r ≠ [] then none else
      let ds ← ks.mapM st.get?
      pure (exc st dst (composeConvolutionTree ds))
  | "hetero" :: dst :: k :: rest => do
      let k ← k.toNat?
      if rest.length ≠ 2 * k then none else
      let rec go : List String → Option (List (DPrv R) × List Nat)
        | s :: n :: t => do let d ← st.get? s; let n ← n.toNat?; let (ds, ns) ← go t; pure (d :: ds, n :: ns)
        | [] => some ([], [])
        | _ => none
      let (ds, ns) ← go rest
      pure (exc st dst (composeHeterogeneous ds ns))
  | _ => none

structure D where
  f : Store Float
  i : Store Int

def ldEps : Float := Float.ofScientific 10842021724855044 true 35   -- 2^-63 = np.finfo(np.longdouble).eps on x86-64
def tol8 : Float := 1e-8

def epsOut : EpsOut Float → String
  | .inf => "inf"
  | .triple l e u => s!"{floatHex l} {floatHex e} {floatHex u}"
  | .err e => e.str

def domOut : Except Err (Dom Float) → String
  | .ok d => s!"{floatHex d.tMin} {floatHex d.tMax} {d.size}"
  | .error e => e.str

def stepLine (d : D) (line : String) : D × String :=
  let ws := words line
  let bad := (d, "bad-op")
  match ws with
  | [] => bad
  | op :: rest =>
    if op.startsWith "f" ∧ (composeOp fch d.f ((op.drop 1).toString :: rest)).isSome then
      match composeOp fch d.f ((op.drop 1).toString :: rest) with
      | some (st, r) => ({ d with f := st }, r)
      | none => bad
    else if op.startsWith "i" ∧ (composeOp ich d.i ((op.drop 1).toString :: rest)).isSome then
      match composeOp ich d.i ((op.drop 1).toString :: rest) with
      | some (st, r) => ({ d with i := st }, r)
      | none => bad
    else match ws with
    | ["aligned", a, b, dt] =>
      match float? a, float? b, float? dt with
      | some a, some b, some dt => (d, domOut (createAligned tol8 a b dt))
      | _, _, _ => bad
    | ["mesh", e, de, n] =>
      match float? e, float? de, n.toNat? with
      | some e, some de, some n => (d, floatHex (meshSize e de n))
      | _, _, _ => bad
    | "safel" :: ea :: ee :: rest =>
      match float? ea, float? ee, takeList? float? rest with
      | some ea, some ee, some (each, []) => (d, floatHex (safeDomainSize ea each ee))
      | _, _, _ => bad
    | ["domain", l, e, de, n] =>
      match float? l, float? e, float? de, n.toNat? with
      | some l, some e, some de, some n => (d, domOut (getDomain tol8 l e de n))
      | _, _, _, _ => bad
    | "disc" :: dst :: a :: b :: sz :: mc :: rest =>
      match float? a, float? b, sz.toNat?, float? mc, takeList? float? rest with
      | some a, some b, some sz, some mc, some (cr, rest') =>
        match takeList? float? rest' with
        | some (cl, []) =>
          let cr := cr.toArray; let cl := cl.toArray
          let (st, r) := exc d.f dst (discretize (fun i => cr.getD i 0) (fun i => cl.getD i 0) mc ⟨a, b, sz, 0⟩)
          ({ d with f := st }, r)
        | _ => bad
      | _, _, _, _, _ => bad
    | ["eps", s, dl, de, ee] =>
      match d.f.get? s, float? dl, float? de, float? ee with
      | some p, some dl, some de, some ee => (d, epsOut (computeEpsilon p ldEps dl de ee))
      | _, _, _, _ => bad
    | "epsx" :: s :: dl :: de :: ee :: rest =>
      match d.f.get? s, float? dl, float? de, float? ee, takeList? float? rest with
      | some p, some dl, some de, some ee, some (ts, r1) =>
        match takeList? float? r1 with
        | some (et, r2) =>
          match takeList? float? r2 with
          | some (ent, []) =>
            let tbl := (ts.zip et).map (fun (t, v) => (t.toBits, v)) ++ (ts.zip ent).map (fun (t, v) => ((-t).toBits, v))
            (d, epsOut (@computeEpsilon Float _ _ _ _ _ _ _ _ _ _ _ (tableAnalytic tbl) p ldEps dl de ee))
          | _ => bad
        | none => bad
      | _, _, _, _, _ => bad
    | ["dest", s, e] =>
      match d.f.get? s, float? e with
      | some p, some e => (d, floatHex (computeDeltaEstimate p e))
      | _, _ => bad
    | "ssl" :: rest =>
      match takeList? float? rest with
      | some (a, [k]) =>
        match float? k with
        | some k => let arr := a.toArray; (d, toString (searchsortedLeft (fun i => arr.getD i 0) arr.size k))
        | none => bad
      | _ => bad
    | _ => bad

def main : IO Unit := runLines stepLine ⟨[], []⟩
