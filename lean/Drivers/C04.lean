import OpacusLean.Model.Noise
/-! driver for C04 (Float):  `reqs <sigma> <clip> <secure 0|1> <nparams> {<rank> <dims…>}`
reply: the torch.normal requests of one add_noise(): `<std>:<d1xd2…>` separated by spaces (or `none`) -/
open Opacus Opacus.Proto Opacus.Noise

partial def parseShapes : Nat → List String → Option (List (List Nat))
  | 0, [] => some []
  | 0, _ => none
  | n + 1, ws => do
    let (sh, rest) ← takeList? (·.toNat?) ws
    let tl ← parseShapes n rest
    pure (sh :: tl)

def handle (line : String) : String :=
  match words line with
  | "reqs" :: s :: c :: sec :: n :: rest =>
    match float? s, float? c, bool? sec, n.toNat? with
    | some s, some c, some sec, some n =>
      match parseShapes n rest with
      | some shapes =>
        let rs := addNoiseReqs (fun x : Float => x == 0) s c shapes sec
        if rs.isEmpty then "none" else
        " ".intercalate (rs.map (fun r => s!"{floatHex r.std}:{"x".intercalate (r.shape.map toString)}"))
      | none => "bad-op"
    | _, _, _, _ => "bad-op"
  | _ => "bad-op"

def main : IO Unit := runPure handle
