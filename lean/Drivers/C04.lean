import OpacusLean.Model.Noise
import OpacusLean.Model.PeekQueue
/-! driver for C04 (Float):  `reqs <sigma> <clip> <secure 0|1> <nparams> {<rank> <dims…>}`
reply: the torch.normal requests of one add_noise(): `<std>:<d1xd2…>` separated by spaces (or `none`)
`peek <schedule over T F b>`: the hook-based per-layer optimizer's noise decision per physical batch -/
open Opacus Opacus.Proto Opacus.Noise

partial def parseShapes : Nat → List String → Option (List (List Nat))
  | 0, [] => some []
  | 0, _ => none
  | n + 1, ws => do
    let (sh, rest) ← takeList? (·.toNat?) ws
    let tl ← parseShapes n rest
    pure (sh :: tl)

def handle (line : String) : String :=
  match words line with
  | "reqs" :: s :: c :: sec :: n :: rest =>
    match float? s, float? c, bool? sec, n.toNat? with
    | some s, some c, some sec, some n =>
      match parseShapes n rest with
      | some shapes =>
        let rs := addNoiseReqs (fun x : Float => x == 0) s c shapes sec
        if rs.isEmpty then "none" else
        " ".intercalate (rs.map (fun r => s!"{floatHex r.std}:{"x".intercalate (r.shape.map toString)}"))
      | none => "bad-op"
    | _, _, _, _ => "bad-op"
  | ["peek", sched] =>
    -- schedule: T / F = signal_skip_step(True / False), b = one physical batch; reply: one bit per batch (1 = noise drawn)
    let ops := sched.toList.filterMap (fun ch => if ch == 'T' then some (PeekQueue.Op.push true) else if ch == 'F' then some (.push false)
                                                  else if ch == 'b' then some .batch else none)
    if ops.length != sched.length then "bad-op" else
    let r := (PeekQueue.run ops).noised
    if r.isEmpty then "none" else String.ofList (r.map (fun b => if b then '1' else '0'))
  | _ => "bad-op"

def main : IO Unit := runPure handle
