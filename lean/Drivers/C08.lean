import OpacusLean.Model.Proto
import OpacusLean.Model.Binary64
import OpacusLean.Model.Calib
/-! driver for C08.  Requests (variant = `asCoded` | `repaired`):
  `len <variant> <L>`              → `<lenDP> <qSampler bits> <qAcc bits>`        (`L = 0` → `err:ZeroDivisionError`)
  `steps <vSteps> <vLen> <E> <L>` → `<stepsCal vSteps> <stepsTrain vLen>`
  `ebs <variant> <N> <L> <W>`      → `<ebs> <ebs/W bits>`
  `lenrange <variant> <lo> <hi>`   → `<sum of qSampler bits mod 2^64> <sum of qAcc bits mod 2^64> k L1 l1 … Lk lk`
                                      (the L in [lo,hi) with lenDP L ≠ L, and their lenDP)
  `stepsrange <variant> <E> <lo> <hi>` → `k L1 s1 … Lk sk`  (the L in [lo,hi) with stepsCal E L ≠ E·L)
  `calib <target> <tol> <maxSigma> <fuelD> <fuelB> <n> s1 e1 … sn en`
        Float instance of `getNoiseMultiplier`; `eps` is the finite table {s_i ↦ e_i} (bit patterns);
        reply `ok <sigma> <k> q1 … qk` | `err:budget-too-low <k> q…` | `err:fuel <k> q…`
        where q1…qk is the sequence of σ handed to `eps`; `err:eps-miss <sigma>` if the model asked
        for a σ that is not in the table.
-/
open Opacus Opacus.Proto Opacus.Binary64 Opacus.Calib

def variant? : String → Option Variant
  | "asCoded" => some .asCoded
  | "repaired" => some .repaired
  | _ => none

def hex64 (n : Nat) : String := hexOfNat n 16

def lookup (tab : List (UInt64 × Float)) (nan : Float) (s : Float) : Float :=
  match tab.find? (fun p => p.1 == s.toBits) with
  | some p => p.2
  | none => nan

def pairs? : List String → Option (List (UInt64 × Float))
  | [] => some []
  | s :: e :: r => do
      let s ← float? s; let e ← float? e; let t ← pairs? r
      pure ((s.toBits, e) :: t)
  | _ => none

def handle (line : String) : String :=
  match words line with
  | ["len", v, l] =>
    match variant? v, l.toNat? with
    | some v, some L =>
      if L = 0 then "err:ZeroDivisionError" else
      s!"{lenDP v L} {hex64 (toBits (qSampler L))} {hex64 (toBits (qAcc v L))}"
    | _, _ => "bad-op"
  | ["steps", vs, vl, e, l] =>
    match variant? vs, variant? vl, e.toNat?, l.toNat? with
    | some vs, some vl, some E, some L =>
      if L = 0 then "err:ZeroDivisionError" else s!"{stepsCal vs E L} {stepsTrain vl E L}"
    | _, _, _, _ => "bad-op"
  | ["ebs", v, n, l, w] =>
    match variant? v, n.toNat?, l.toNat?, w.toNat? with
    | some v, some N, some L, some W =>
      if L = 0 ∨ W = 0 then "err:ZeroDivisionError" else
      s!"{ebs v N L} {hex64 (toBits (ebsDist v N L W))}"
    | _, _, _, _ => "bad-op"
  | ["lenrange", v, lo, hi] =>
    match variant? v, lo.toNat?, hi.toNat? with
    | some v, some lo, some hi =>
      if lo = 0 then "err:ZeroDivisionError" else
      let (s1, s2, ex) := (List.range (hi - lo)).foldl (fun (acc : Nat × Nat × List Nat) k =>
        let L := lo + k
        let l' := lenDP v L
        let a := (acc.1 + toBits (qSampler L)) % 2 ^ 64
        let b := (acc.2.1 + toBits (qAcc v L)) % 2 ^ 64
        (a, b, if l' = L then acc.2.2 else l' :: L :: acc.2.2)) (0, 0, [])
      s!"{hex64 s1} {hex64 s2} {ex.length / 2} {joinNats ex.reverse}"
    | _, _, _ => "bad-op"
  | ["stepsrange", v, e, lo, hi] =>
    match variant? v, e.toNat?, lo.toNat?, hi.toNat? with
    | some v, some E, some lo, some hi =>
      if lo = 0 then "err:ZeroDivisionError" else
      let ex := (List.range (hi - lo)).foldl (fun (acc : List Nat) k =>
        let L := lo + k
        let s := stepsCal v E L
        if s = E * L then acc else s :: L :: acc) []
      s!"{ex.length / 2} {joinNats ex.reverse}"
    | _, _, _, _ => "bad-op"
  | "calib" :: t :: tol :: mx :: fd :: fb :: n :: rest =>
    match float? t, float? tol, float? mx, fd.toNat?, fb.toNat?, n.toNat?, pairs? rest with
    | some t, some tol, some mx, some fd, some fb, some n, some tab =>
      if tab.length ≠ n then "bad-op" else
      let nan : Float := 0.0 / 0.0
      let inf : Float := 1.0 / 0.0
      let out := getNoiseMultiplier (lookup tab nan) t tol mx inf 0 10 fd fb
      let qs := out.log.reverse
      match qs.find? (fun s => !(tab.any (fun p => p.1 == s.toBits))) with
      | some s => s!"err:eps-miss {floatHex s}"
      | none =>
        let tail := s!"{qs.length} {joinFloats qs}"
        match out.res with
        | .ok s => s!"ok {floatHex s} {tail}"
        | .budgetTooLow => s!"err:budget-too-low {tail}"
        | .outOfFuel => s!"err:fuel {tail}"
    | _, _, _, _, _, _, _ => "bad-op"
  | _ => "bad-op"

def main : IO Unit := runPure handle
