import OpacusLean.Model.Validate
/-! driver for C15.  One request per line.

Tree syntax (prefix, whitespace separated):
  `N <name|_> <Type> <training> <num_features> <affine> <trs> <num_layers> <bidir> <bias> <dropout> <num_groups>
     <np> {<pname> <requires_grad>}*  <nb> {<bname>}*  <nc> <child>*`
Object identities / value tokens are assigned by one counter in parse order (module, its parameters,
its buffers, then its children), the harness numbers the real objects the same way.

Requests (`<v>` = 6 variant bits walkAll kwIN kwLSTM kwMHA inDropBuffers keepMode):
  `validate <v> <tree>`                 → `mv=<classes|-> gsm=<n> tm=<trainable names|-> sem=<path:couples:updates,…>`
  `mkpriv <v> <k> <o1> … <ok> <tree>`   → `ok` | `err:<Exception>[:detail]`   (oi = parameter number | `F` foreign)
  `fix <v> <rbi -|0|1> <ng -|n> <extra 0|1> <tree>` → `err:<Exception>` | `ok <dump>`
-/
open Opacus Opacus.Proto Opacus.Validate

def parseVariant (s : String) : Option Variant :=
  match s.toList.map (· == '1') with
  | [a, b, c, d, e, f] => some ⟨a, b, c, d, e, f⟩
  | [a, b, c, d, e] => some ⟨a, b, c, d, e, false⟩
  | _ => none

def takeN {α} (f : List String → Option (α × List String)) : Nat → List String → Option (List α × List String)
  | 0, ts => some ([], ts)
  | n + 1, ts => do
    let (a, ts) ← f ts
    let (as, ts) ← takeN f n ts
    pure (a :: as, ts)

partial def parseTree (ctr : Nat) : List String → Option (Tree × Nat × List String)
  | "N" :: name :: ty :: tr :: nf :: aff :: trs :: nl :: bd :: bi :: dr :: ng :: rest => do
    let ty ← Ty.ofStr? ty
    let tr ← bool? tr; let aff ← bool? aff; let trs ← bool? trs
    let bd ← bool? bd; let bi ← bool? bi; let dr ← bool? dr
    let nf ← nf.toNat?; let nl ← nl.toNat?; let ng ← ng.toNat?
    let oid := ctr
    let mut c := ctr + 1
    -- parameters
    let np ← rest.head?.bind String.toNat?
    let mut ts := rest.drop 1
    let mut ps : List Param := []
    for _ in [0:np] do
      match ts with
      | pn :: rg :: r =>
        let rg ← bool? rg
        ps := ps ++ [⟨pn, .orig c, .tok c, rg⟩]
        c := c + 1
        ts := r
      | _ => none
    let nb ← ts.head?.bind String.toNat?
    ts := ts.drop 1
    let mut bs : List Buf := []
    for _ in [0:nb] do
      match ts with
      | bn :: r =>
        bs := bs ++ [⟨bn, .orig c, .tok c⟩]
        c := c + 1
        ts := r
      | _ => none
    let nc ← ts.head?.bind String.toNat?
    ts := ts.drop 1
    let mut kids : List Tree := []
    for _ in [0:nc] do
      let (k, c', r) ← parseTree c ts
      kids := kids ++ [k]
      c := c'
      ts := r
    let info : Info :=
      { name := .s (if name == "_" then "" else name), oid := .orig oid, ty := ty, params := ps, buffers := bs,
        training := tr,
        cfg := { numFeatures := nf, affine := aff, trs := trs, numLayers := nl, bidir := bd, bias := bi,
                 dropout := dr, numGroups := ng } }
    pure (⟨info, Forest.ofList kids⟩, c, ts)
  | _ => none

def pathStr (p : Path) : String := if p.isEmpty then "^" else Path.str p

def commaOr (xs : List String) : String := if xs.isEmpty then "-" else ",".intercalate xs

def excStr : Exc → String
  | .unsupportedModule es => "UnsupportedModuleError:" ++ commaOr (es.map ErrC.str)
  | .notImplemented n => s!"NotImplementedError:{n}"
  | .valueError => "ValueError"
  | .typeError => "TypeError"
  | .runtimeError => "RuntimeError"
  | .attributeError => "AttributeError"
  | .keyError => "KeyError"
  | .unsupportable => "UnsupportableModuleError"
  | .zeroDivision => "ZeroDivisionError"

def originStr : Oid → String
  | .clone 0 (.orig k) => s!"c{k}"
  | .orig k => s!"o{k}"
  | _ => "x"

def valStr : Val → String
  | .tok k => s!"t{k}"
  | .ones => "1"
  | .zeros => "0"
  | .chunk3 v i => s!"ch{i}({valStr v})"
  | .squeeze v => s!"sq({valStr v})"

def dumpNode (e : Path × Tree) : String :=
  let i := e.2.info
  let ps := i.params.map (fun p => s!"{p.name}={valStr p.val}:{boolStr p.reqGrad}:{originStr p.oid}")
  let bs := i.buffers.map (fun b => s!"{b.name}={valStr b.val}:{originStr b.oid}")
  s!"{pathStr e.1}|{i.ty.str}|{boolStr i.training}|{boolStr i.cfg.affine}|{boolStr i.cfg.trs}|{i.cfg.numFeatures}|{i.cfg.numGroups}|{originStr i.oid}|{commaOr ps}|{commaOr bs}"

def dumpTree (t : Tree) : String := ";".intercalate (t.named.map dumpNode)

def handle (line : String) : String :=
  match words line with
  | "validate" :: v :: rest =>
    match parseVariant v, parseTree 0 rest with
    | some v, some (t, _, []) =>
      let mv := mvValidate v t
      let tm := (trainableModules t).map (fun e => pathStr e.1)
      let sem := t.named.map (fun e => s!"{pathStr e.1}:{boolStr (couples e.2.info)}:{boolStr (updatesStats e.2.info)}")
      s!"mv={commaOr (mv.map ErrC.str)} gsm={gsmValidate t} tm={commaOr tm} sem={commaOr sem}"
    | _, _ => "bad-op"
  | "mkpriv" :: v :: k :: rest =>
    match parseVariant v, k.toNat? with
    | some v, some k =>
      let os := rest.take k
      match os.mapM (fun o => if o == "F" then some (Oid.orig 999999999) else o.toNat?.map Oid.orig), parseTree 0 (rest.drop k) with
      | some opt, some (t, _, []) =>
        match makePrivate v t opt with
        | .ok _ => "ok"
        | .error e => "err:" ++ excStr e
      | _, _ => "bad-op"
    | _, _ => "bad-op"
  | "fix" :: v :: rbi :: ng :: extra :: rest =>
    let rbi? : Option (Option Bool) := if rbi == "-" then some none else (bool? rbi).map some
    let ng? : Option (Option Nat) := if ng == "-" then some none else ng.toNat?.map some
    match parseVariant v, rbi?, ng?, bool? extra, parseTree 0 rest with
    | some v, some rbi, some ng, some extra, some (t, _, []) =>
      match fix v ⟨rbi, ng, extra⟩ t with
      | .ok t' => "ok " ++ dumpTree t'
      | .error e => "err:" ++ excStr e
    | _, _, _, _, _ => "bad-op"
  | _ => "bad-op"

def main : IO Unit := runPure handle
