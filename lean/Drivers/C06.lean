import OpacusLean.Model.RdpProto
/-! driver for C06 (Float instance of the RDP accountant model); protocol: see `Model/RdpProto.lean` -/
def main : IO Unit := Opacus.Proto.runLines Opacus.RdpProto.stepLine {}
