import OpacusLean.Model.Proto
import OpacusLean.Model.GradSampleConv
/-! driver for C01, convolution samplers and unfold2d/unfold3d (Int instance, decimal integers).
Pad specs: `same` | `valid` | a number.  Pad modes: zeros|reflect|replicate|circular.
  unfold2d var19 N C H W kH kW s0 s1 d0 d1 padH padW stN stC stH stW  x[N·C·H·W]
        → `U <count> v…` = the [N, C·kH·kW, Ho·Wo] result, row-major           | err:size
  unfold3d N C D H W kD kH kW s0 s1 s2 d0 d1 d2 padD padH padW  x[…]   → `U …` | err:size
  conv2d var17 var19 mode N C O G H W kH kW s0 s1 d0 d1 padH padW wr br stN stC stH stW  x[N·C·H·W] b[N·O·Ho·Wo]
  conv1d var17 mode N C O G L k s d pad wr br  x[N·C·L] b[N·O·Lo]
  conv3d var17 mode N C O G D H W kD kH kW s0 s1 s2 d0 d1 d2 padD padH padW wr br  x[…] b[…]
        → `K <rows> W <count> v… B <count> v…` (`W -` / `B -` when not returned)  | err:size
-/
open Opacus Opacus.Proto Opacus.GS

def takeInts (k : Nat) (ws : List String) : Option (Array Int × List String) :=
  if ws.length < k then none else do
    let xs ← (ws.take k).mapM String.toInt?
    pure (xs.toArray, ws.drop k)

def takeNats (k : Nat) (ws : List String) : Option (List Nat × List String) :=
  if ws.length < k then none else do
    let xs ← (ws.take k).mapM String.toNat?
    pure (xs, ws.drop k)

def var? : String → Option Variant
  | "asCoded" => some .asCoded
  | "repaired" => some .repaired
  | _ => none

def mode? : String → Option PadMode
  | "zeros" => some .zeros
  | "reflect" => some .reflect
  | "replicate" => some .replicate
  | "circular" => some .circular
  | _ => none

def pad? (s : String) : Option PadSpec :=
  if s = "same" then some .same else if s = "valid" then some .valid else (s.toNat?).map .explicit

def optBool? : String → Option (Option Bool)
  | "n" => some none
  | "0" => some (some false)
  | "1" => some (some true)
  | _ => none

def a3 (xs : Array Int) (d1 d2 : Nat) : Nat → Nat → Nat → Int := fun i j k => xs[(i * d1 + j) * d2 + k]!
def a4 (xs : Array Int) (d1 d2 d3 : Nat) : Nat → Nat → Nat → Nat → Int :=
  fun i j k l => xs[((i * d1 + j) * d2 + k) * d3 + l]!
def a5 (xs : Array Int) (d1 d2 d3 d4 : Nat) : Nat → Nat → Nat → Nat → Nat → Int :=
  fun i j k l m => xs[(((i * d1 + j) * d2 + k) * d3 + l) * d4 + m]!

def l2 (d0 d1 : Nat) (f : Nat → Nat → Int) : List Int :=
  (List.range d0).flatMap fun i => (List.range d1).map fun j => f i j
def l3 (d0 d1 d2 : Nat) (f : Nat → Nat → Nat → Int) : List Int :=
  (List.range d0).flatMap fun i => l2 d1 d2 (f i)
def l4 (d0 d1 d2 d3 : Nat) (f : Nat → Nat → Nat → Nat → Int) : List Int :=
  (List.range d0).flatMap fun i => l3 d1 d2 d3 (f i)

def blockI (tag : String) (xs : Option (List Int)) : String :=
  match xs with
  | none => s!"{tag} -"
  | some l => s!"{tag} {l.length} " ++ " ".intercalate (l.map toString)

def showOut (o : ConvOut Int) (O Cg K : Nat) : String :=
  s!"K {o.rows} " ++ blockI "W" (o.weight.map (l4 o.rows O Cg K)) ++ " " ++ blockI "B" (o.bias.map (l2 o.rows O))

def handle (ws : List String) : String :=
  let r : Option String :=
    match ws with
    | "unfold2d" :: v19 :: rest => do
      let v19 ← var? v19
      let (ds, rest) ← takeNats 10 rest
      match ds, rest with
      | [N, C, H, W, kH, kW, s0, s1, d0, d1], pH :: pW :: rest =>
        let pH ← pad? pH; let pW ← pad? pW
        let (st, rest) ← takeNats 4 rest
        let (x, rest) ← takeInts (N * C * H * W) rest
        if rest ≠ [] then none else
        match st with
        | [stN, stC, stH, stW] =>
          let c : Conv2dCfg := ⟨N, C, 1, 1, H, W, kH, kW, s0, s1, d0, d1, pH, pW, .zeros⟩
          if !c.fits || s0 = 0 || s1 = 0 then pure "err:size" else
          let st : Strides4 := ⟨stN, stC, stH, stW⟩
          let xp : Nat → Nat → Nat → Nat → Int := fun n ch => padded2 .zeros H W c.pH.1 c.pW.1 (a4 x C H W n ch)
          let mem := memOf st N C c.Hp c.Wp xp
          let unf := unfold2dOut kH kW c.Wo (unfold2dView v19 st c.Wp d0 d1 s0 s1 mem)
          pure (blockI "U" (some (l3 N (C * kH * kW) c.Q unf)))
        | _ => none
      | _, _ => none
    | "unfold3d" :: rest => do
      let (ds, rest) ← takeNats 14 rest
      match ds, rest with
      | [N, C, D, H, W, kD, kH, kW, s0, s1, s2, d0, d1, d2], pD :: pH :: pW :: rest =>
        let pD ← pad? pD; let pH ← pad? pH; let pW ← pad? pW
        let (x, rest) ← takeInts (N * C * D * H * W) rest
        if rest ≠ [] then none else
        let c : Conv3dCfg := ⟨N, C, 1, 1, D, H, W, kD, kH, kW, s0, s1, s2, d0, d1, d2, pD, pH, pW, .zeros⟩
        if !c.fits || s0 = 0 || s1 = 0 || s2 = 0 then pure "err:size" else
        pure (blockI "U" (some (l3 N (C * c.K) c.Q (conv3dUnfolded .asCoded c (a5 x C D H W)))))
      | _, _ => none
    | "conv2d" :: v17 :: v19 :: mode :: rest => do
      let v17 ← var? v17; let v19 ← var? v19; let mode ← mode? mode
      let (ds, rest) ← takeNats 12 rest
      match ds, rest with
      | [N, C, O, G, H, W, kH, kW, s0, s1, d0, d1], pH :: pW :: wr :: br :: rest =>
        let pH ← pad? pH; let pW ← pad? pW; let wr ← bool? wr; let br ← optBool? br
        let (st, rest) ← takeNats 4 rest
        let c : Conv2dCfg := ⟨N, C, O, G, H, W, kH, kW, s0, s1, d0, d1, pH, pW, mode⟩
        if !c.fits || s0 = 0 || s1 = 0 || G = 0 then pure "err:size" else
        let (x, rest) ← takeInts (N * C * H * W) rest
        let (b, rest) ← takeInts (N * O * c.Ho * c.Wo) rest
        if rest ≠ [] then none else
        match st with
        | [stN, stC, stH, stW] =>
          let bt := a4 b O c.Ho c.Wo
          let out := convAssemble N wr br (conv2dWeightGS v17 v19 c ⟨stN, stC, stH, stW⟩ (a4 x C H W) bt) (conv2dBiasGS c bt)
          pure (showOut out O c.Cg c.K)
        | _ => none
      | _, _ => none
    | "conv1d" :: v17 :: mode :: rest => do
      let v17 ← var? v17; let mode ← mode? mode
      let (ds, rest) ← takeNats 8 rest
      match ds, rest with
      | [N, C, O, G, L, k, s, d], pd :: wr :: br :: rest =>
        let pd ← pad? pd; let wr ← bool? wr; let br ← optBool? br
        let c : Conv1dCfg := ⟨N, C, O, G, L, k, s, d, pd, mode⟩
        if !c.fits || s = 0 || G = 0 then pure "err:size" else
        let (x, rest) ← takeInts (N * C * L) rest
        let (b, rest) ← takeInts (N * O * c.Lo) rest
        if rest ≠ [] then none else
        let bt := a3 b O c.Lo
        let out := convAssemble N wr br (fun n o ci kk => conv1dWeightGS v17 c (a3 x C L) bt n o ci kk) (conv1dBiasGS c bt)
        pure (showOut out O c.Cg k)
      | _, _ => none
    | "conv3d" :: v17 :: mode :: rest => do
      let v17 ← var? v17; let mode ← mode? mode
      let (ds, rest) ← takeNats 16 rest
      match ds, rest with
      | [N, C, O, G, D, H, W, kD, kH, kW, s0, s1, s2, d0, d1, d2], pD :: pH :: pW :: wr :: br :: rest =>
        let pD ← pad? pD; let pH ← pad? pH; let pW ← pad? pW; let wr ← bool? wr; let br ← optBool? br
        let c : Conv3dCfg := ⟨N, C, O, G, D, H, W, kD, kH, kW, s0, s1, s2, d0, d1, d2, pD, pH, pW, mode⟩
        if !c.fits || s0 = 0 || s1 = 0 || s2 = 0 || G = 0 then pure "err:size" else
        let (x, rest) ← takeInts (N * C * D * H * W) rest
        let (b, rest) ← takeInts (N * O * c.Q) rest
        if rest ≠ [] then none else
        let bt := a5 b O c.Do c.Ho c.Wo
        let out := convAssemble N wr br (conv3dWeightGS v17 c (a5 x C D H W) bt) (conv3dBiasGS c bt)
        pure (showOut out O c.Cg c.K)
      | _, _ => none
    | _ => none
  r.getD "bad-op"

def main : IO Unit := runPure fun l => handle (words l)
