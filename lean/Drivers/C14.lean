import OpacusLean.Model.Mha
/-! driver for C14 (`Float` instance of `Opacus.Mha`).  One request per line:

  `<op> <bf> <vMerge> <vMask> <vKpm> h d Kd Vd nkv nz B L S <hasBias> <tensors…> <mask> <kpm>`

* `op`: `fwd` (model of `DPMultiheadAttention.forward`) | `spec` (the specification)
* flags `0|1`; variants `0` = asCoded, `1` = repaired
* tensors (row-major, binary64 as 16 hex digits, sizes known from the dims, in this order):
  `Wq[E,E] (bq[E]) Wk[E,Kd] (bk[E]) Wv[E,Vd] (bv[E]) Wo[E,E] (bo[E]) seq_bias_k[nkv,E]
  seq_bias_v[nkv,E] query key value`; query/key/value are laid out as passed (`(L,B,·)` or, with
  `bf=1`, `(B,L,·)`)
* mask: `none | bad | other | b2 r c bits… | f2 r c x… | b3 n r c bits… | f3 n r c x…`
* kpm:  `none | bool r c bits… | add r c x…`

reply: `ok <out…> | <avg weights…> | <pre-softmax scores…>` (hex floats) or `err:<kind>`;
`bad-op` for a line that does not parse; `spec` with mask shapes torch rejects: `err:spec-shape`. -/
open Opacus Opacus.Proto Opacus.Mha

abbrev P := StateT (List String) Option

def tok : P String := do
  match (← get) with
  | [] => failure
  | t :: r => set r; pure t

def pNat : P Nat := do let t ← tok; match t.toNat? with | some n => pure n | none => failure
def pBool : P Bool := do let t ← tok; match bool? t with | some b => pure b | none => failure
def pFloat : P Float := do let t ← tok; match float? t with | some x => pure x | none => failure
def pV : P V := do let b ← pBool; pure (if b then .repaired else .asCoded)

def pArr {α} (p : P α) (n : Nat) : P (Array α) := do
  let mut a := Array.mkEmpty n
  for _ in [0:n] do
    a := a.push (← p)
  pure a

def t1 (a : Array Float) (n : Nat) : Fin n → Float := fun i => a.getD i.val 0
def t2 {α} [Inhabited α] (a : Array α) (n m : Nat) : Fin n → Fin m → α := fun i j => a.getD (i.val * m + j.val) default
def t3 {α} [Inhabited α] (a : Array α) (n m k : Nat) : Fin n → Fin m → Fin k → α :=
  fun i j l => a.getD ((i.val * m + j.val) * k + l.val) default

def pLin (hasBias : Bool) (o i : Nat) : P (Lin Float o i) := do
  let w ← pArr pFloat (o * i)
  if hasBias then
    let b ← pArr pFloat o
    pure ⟨t2 w o i, some (t1 b o)⟩
  else pure ⟨t2 w o i, none⟩

def pMask : P (AttnMask Float) := do
  match (← tok) with
  | "none" => pure .none
  | "bad" => pure .badDtype
  | "other" => pure .otherDim
  | "b2" => do let r ← pNat; let c ← pNat; let a ← pArr pBool (r * c); pure (.b2 r c (t2 a r c))
  | "f2" => do let r ← pNat; let c ← pNat; let a ← pArr pFloat (r * c); pure (.f2 r c (t2 a r c))
  | "b3" => do let n ← pNat; let r ← pNat; let c ← pNat; let a ← pArr pBool (n * r * c); pure (.b3 n r c (t3 a n r c))
  | "f3" => do let n ← pNat; let r ← pNat; let c ← pNat; let a ← pArr pFloat (n * r * c); pure (.f3 n r c (t3 a n r c))
  | _ => failure

def pKpm : P (Kpm Float) := do
  match (← tok) with
  | "none" => pure .none
  | "bool" => do let r ← pNat; let c ← pNat; let a ← pArr pBool (r * c); pure (.bool r c (t2 a r c))
  | "add" => do let r ← pNat; let c ← pNat; let a ← pArr pFloat (r * c); pure (.add r c (t2 a r c))
  | _ => failure

/-- torch's softmax on one row: `exp(x − max) / Σ exp(x − max)` -/
def softmaxF (n : Nat) (x : Fin n → Float) : Fin n → Float :=
  let xs := Array.ofFn x
  if xs.size = 0 then x else
  let m := xs.foldl (fun a b => if b > a then b else a) (xs.getD 0 0)
  let es := xs.map (fun v => Float.exp (v - m))
  let s := es.foldl (· + ·) 0
  fun i => es.getD i.val 0 / s

def opsF (h d : Nat) : Ops Float :=
  { ninf := -(1.0 / 0.0), scale := Float.pow d.toFloat (-0.5), softmax := softmaxF, divH := fun x => x / h.toFloat }

def dump3 {a b c} (x : Fin a → Fin b → Fin c → Float) : String :=
  joinFloats ((List.finRange a).flatMap fun i => (List.finRange b).flatMap fun j => (List.finRange c).map fun k => x i j k)

def errStr : Err → String
  | .maskDtype => "err:mask-dtype" | .maskSize2 => "err:mask-size2" | .maskSize3 => "err:mask-size3"
  | .maskDim => "err:mask-dim" | .kpmSize => "err:kpm-size" | .kpmDtype => "err:kpm-dtype"
  | .broadcast => "err:broadcast"

def showOut {o0 o1 E B h L S2} : Except Err (Out Float o0 o1 E B h L S2) → String
  | .error e => errStr e
  | .ok o => s!"ok {dump3 o.out} | {dump3 o.w} | {dump3 o.scores}"

/-- masks with the shapes torch accepts, else `none` -/
def toSMask (Bh L S : Nat) : AttnMask Float → Option (SMask Float Bh L S)
  | .none => some .none
  | .b2 r c v => if h : r = L ∧ c = S then some (.b2 (fun i j => v (i.cast h.1.symm) (j.cast h.2.symm))) else none
  | .f2 r c v => if h : r = L ∧ c = S then some (.f2 (fun i j => v (i.cast h.1.symm) (j.cast h.2.symm))) else none
  | .b3 n r c v => if h : n = Bh ∧ r = L ∧ c = S then
      some (.b3 (fun a i j => v (a.cast h.1.symm) (i.cast h.2.1.symm) (j.cast h.2.2.symm))) else none
  | .f3 n r c v => if h : n = Bh ∧ r = L ∧ c = S then
      some (.f3 (fun a i j => v (a.cast h.1.symm) (i.cast h.2.1.symm) (j.cast h.2.2.symm))) else none
  | _ => none

def toSKpm (B S : Nat) : Kpm Float → Option (SKpm Float B S)
  | .none => some .none
  | .bool r c v => if h : r = B ∧ c = S then some (.bool (fun i j => v (i.cast h.1.symm) (j.cast h.2.symm))) else none
  | .add r c v => if h : r = B ∧ c = S then some (.add (fun i j => v (i.cast h.1.symm) (j.cast h.2.symm))) else none

def request : P String := do
  let op ← tok
  let bf ← pBool
  let vr : Variant := ⟨← pV, ← pV, ← pV⟩
  let h ← pNat; let d ← pNat; let Kd ← pNat; let Vd ← pNat; let nkv ← pNat; let nz ← pNat
  let B ← pNat; let L ← pNat; let S ← pNat
  let hasBias ← pBool
  let E := h * d
  let pq ← pLin hasBias E E
  let pk ← pLin hasBias E Kd
  let pv ← pLin hasBias E Vd
  let po ← pLin hasBias E E
  let bk ← pArr pFloat (nkv * E)
  let bv ← pArr pFloat (nkv * E)
  let Pm : Params Float h d Kd Vd nkv := ⟨pq, pk, pv, po, t2 bk nkv E, t2 bv nkv E⟩
  let (a0, a1) := if bf then (B, L) else (L, B)
  let (c0, c1) := if bf then (B, S) else (S, B)
  let qa ← pArr pFloat (a0 * a1 * E)
  let ka ← pArr pFloat (c0 * c1 * Kd)
  let va ← pArr pFloat (c0 * c1 * Vd)
  let am ← pMask
  let kp ← pKpm
  if !(← get).isEmpty then failure
  let ops := opsF h d
  match op, bf with
  | "fwd", false => pure (showOut (forwardSF ops vr Pm nz (t3 qa L B E) (t3 ka S B Kd) (t3 va S B Vd) am kp))
  | "fwd", true => pure (showOut (forwardBF ops vr Pm nz (t3 qa B L E) (t3 ka B S Kd) (t3 va B S Vd) am kp))
  | "spec", _ =>
    match toSMask (B * h) L S am, toSKpm B S kp with
    | some m, some k =>
      if bf then pure (showOut (.ok (specBF ops Pm nz (t3 qa B L E) (t3 ka B S Kd) (t3 va B S Vd) m k)))
      else pure (showOut (.ok (spec ops Pm nz (t3 qa L B E) (t3 ka S B Kd) (t3 va S B Vd) m k)))
    | _, _ => pure "err:spec-shape"
  | _, _ => failure

def handle (line : String) : String :=
  match request.run (words line) with
  | some (r, _) => r
  | none => "bad-op"

def main : IO Unit := runPure handle
