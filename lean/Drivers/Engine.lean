import OpacusLean.Model.Engine
/-! driver for the protocol machine (C04, C05, C10, C11).  Requests:
  `new <std|ghost> <accumAllowed 0|1> <gdp 0|1> <sigma> <clip>`
  `fwdbwd <n>` | `step` | `ozg` | `mzg` | `sig <0|1>` | `sigma <v>` | `clip <v>`
  `split <n> <max>`        (stateless: chunk sizes and skip signals of one logical batch)
reply (stateful ops): `out=<o>;gs=<t,t:p/…>;sum=<none|t,t:p>;ls=<b>;q=<bits>;hist=<s:k:n,…>;ev=<events of this op>` -/
open Opacus Opacus.Proto Opacus.Engine

def sortNat (l : List Nat) : List Nat := (l.toArray.qsort (· < ·)).toList
def toksStr (l : List Nat) : String := ",".intercalate ((sortNat l).map toString)
def flaggedStr (f : Flagged) : String := s!"{toksStr f.toks}:{boolStr f.processed}"

def evStr : Event → String
  | .noise s c => s!"N:{s}:{c}"
  | .account s k => s!"A:{s}:{k}"
  | .inner t => s!"I:{toksStr t}"

def outStr : Out → String
  | .ok => "ok" | .released => "released" | .skipped => "skipped"
  | .errProcessed => "err:processed-flag" | .errNoGrad => "err:no-grad-sample"
  | .errAccum => "err:accum-forbidden" | .errGdp => "err:gdp-heterogeneous"

def render (o : Out) (old new : St) : String :=
  let gs := "/".intercalate (new.gs.map flaggedStr)
  let sm := match new.summed with | none => "none" | some f => flaggedStr f
  let q := String.join (new.queue.map boolStr)
  let hist := ",".intercalate (new.hist.map (fun ((s, k), n) => s!"{s}:{k}:{n}"))
  let ev := " ".intercalate ((new.log.drop old.log.length).map evStr)
  s!"out={outStr o};gs={gs};sum={sm};ls={boolStr new.lastSkipped};q={q};hist={hist};ev={ev}"

structure D where
  c : Cfg
  s : St

def parseOp : List String → Option Op
  | ["fwdbwd", n] => n.toNat?.map .fwdBwd
  | ["step"] => some .step
  | ["ozg"] => some .optZeroGrad
  | ["mzg"] => some .modZeroGrad
  | ["sig", b] => (bool? b).map .signal
  | ["sigma", v] => v.toNat?.map .setSigma
  | ["clip", v] => v.toNat?.map .setClip
  | _ => none

def stepLine (d : D) (line : String) : D × String :=
  match words line with
  | ["new", kd, acc, gdp, sg, cl] =>
    match (if kd = "std" then some Kind.std else if kd = "ghost" then some Kind.ghost else none),
          bool? acc, bool? gdp, sg.toNat?, cl.toNat? with
    | some k, some a, some g, some sg, some cl =>
      let s0 := init sg cl
      (⟨⟨k, a, g⟩, s0⟩, render .ok s0 s0)
    | _, _, _, _, _ => (d, "bad-op")
  | ["split", n, m] =>
    match n.toNat?, m.toNat? with
    | some n, some m =>
      if m = 0 then (d, "bad-op") else
      let r := splitBatch (List.range n) m
      (d, " ".intercalate (r.map (fun (c, b) => s!"{c.length}:{boolStr b}")) ++ " | " ++
          " ".intercalate (r.map (fun (c, _) => toksStr c)))
    | _, _ => (d, "bad-op")
  | ws =>
    match parseOp ws with
    | some op => let (s', o) := stepOp d.c d.s op; (⟨d.c, s'⟩, render o d.s s')
    | none => (d, "bad-op")

def main : IO Unit := runLines stepLine ⟨⟨.std, true, false⟩, init 0 0⟩
