import OpacusLean.Model.Proto
import OpacusLean.Model.Clip
import OpacusLean.Model.GhostNorm
/-! driver for C02 (Float instance of the clip model).  Requests:
  `clip <mode> <P> <d_0 … d_{P-1}> <nb> {<B> <B·Σd floats>}…`
      mode: `flat <C>` | `adaptive <C>` | `perlayer <C_0 … C_{P-1}>` (after `<P> <d…>`: see parse order below)
      reply: `some <Σd floats>` (summed_grad, parameter-major) | `none`
  exact parse order: `clip <kind> <P> <d…> <C…> <nb> …`
-/
open Opacus Opacus.Proto Opacus.Clip Opacus.Ghost

/-- binary64 as the decimal value of its bit pattern (core's `String.toNat?` is native code, the
hex parser of `Proto` is interpreted: 20× faster on long tensor lines) -/
def fdec? (s : String) : Option Float := s.toNat?.map (fun n => Float.ofBits n.toUInt64)

def flat (s : Store Float) : List Float := s.toList.flatMap (·.toList)

/-- split `xs` into consecutive chunks of the given sizes -/
def chunks (sizes : List Nat) (xs : List Float) : Option (List (Array Float)) :=
  match sizes with
  | [] => if xs.isEmpty then some [] else none
  | s :: r => if xs.length < s then none else do
      let rest ← chunks r (xs.drop s)
      pure ((xs.take s).toArray :: rest)

def parseBatches (dl : List Nat) : Nat → List String → Option (List (List (List (Array Float))))
  | 0, [] => some []
  | 0, _ => none
  | nb + 1, b :: rest => do
      let B ← b.toNat?
      let tot := dl.foldl (· + ·) 0
      if rest.length < B * tot then none else
      let xs ← (rest.take (B * tot)).mapM fdec?
      let per ← chunks (List.replicate B tot) xs
      let samples ← per.mapM (fun a => chunks dl a.toList)
      let more ← parseBatches dl nb (rest.drop (B * tot))
      pure (samples :: more)
  | _, [] => none

def doClip (kind : String) (rest : List String) : Option String := do
  let (dl, rest) ← takeList? (·.toNat?) rest
  let P := dl.length
  let d : Fin P → Nat := fun k => dl.getD k.val 0
  let (mode, rest) ← (match kind with
    | "flat" => match rest with
        | c :: r => (fdec? c).map (fun c => (Mode.flat (P := P) c, r))
        | _ => none
    | "adaptive" => match rest with
        | c :: r => (fdec? c).map (fun c => (Mode.adaptive (P := P) c, r))
        | _ => none
    | "perlayer" =>
        if rest.length < P then none else
        ((rest.take P).mapM fdec?).map (fun cs => (Mode.perLayer (fun k => cs.getD k.val 0), rest.drop P))
    | _ => none : Option (Mode Float P × List String))
  match rest with
  | nb :: rest =>
    let nb ← nb.toNat?
    let bs ← parseBatches dl nb rest
    match bs.foldl (fun sg b => clipAndAccumulateExec d mode sg (b.map (·.toArray))) none with
    | none => pure "none"
    | some s => pure ("some " ++ joinFloats (flat s))
  | [] => none

/-! ### ghost clipping -/

def takeN {α} (p : String → Option α) (n : Nat) (ws : List String) : Option (Array α × List String) :=
  if ws.length < n then none else do
    let xs ← (ws.take n).mapM p
    pure (xs.toArray, ws.drop n)

def mat {α} [Inhabited α] (arr : Array α) (r c : Nat) : Fin r → Fin c → α := fun i j => arr[i.val * c + j.val]!
def vec {α} [Inhabited α] (arr : Array α) (n : Nat) : Fin n → α := fun i => arr[i.val]!
def flatMat {α} {r c : Nat} (m : Fin r → Fin c → α) : Array α :=
  (Array.ofFn fun i : Fin r => Array.ofFn fun j : Fin c => m i j).flatten

def variant? : String → Option Variant
  | "a" => some .asCoded
  | "r" => some .repaired
  | _ => none

/-- exact integer channel: squared ghost norms next to the squared norms of the grad samples -/
def doGn : List String → Option String
  | "lin2" :: o :: i :: rest => do
      let O ← o.toNat?; let I ← i.toNat?
      let (b, rest) ← takeN (·.toInt?) O rest
      let (a, rest) ← takeN (·.toInt?) I rest
      if !rest.isEmpty then none
      let bv := vec b O; let av := vec a I
      pure (joinInts [linWeightNormSq2 bv av, linBiasNormSq2 bv, frobSq (linWeightGS2 bv av)])
  | "lin3" :: t :: o :: i :: rest => do
      let T ← t.toNat?; let O ← o.toNat?; let I ← i.toNat?
      let (b, rest) ← takeN (·.toInt?) (T * O) rest
      let (a, rest) ← takeN (·.toInt?) (T * I) rest
      if !rest.isEmpty then none
      let bm := mat b T O; let am := mat a T I
      pure (joinInts [linWeightNormSq3 bm am, linBiasNormSq3 .asCoded bm, linBiasNormSq3 .repaired bm,
        frobSq (linWeightGS3 bm am), vecSq (linBiasGS3 bm)])
  | "emb" :: t :: v :: dd :: rest => do
      let T ← t.toNat?; let V ← v.toNat?; let D ← dd.toNat?
      let (ids, rest) ← takeN (·.toNat?) T rest
      let (b, rest) ← takeN (·.toInt?) (T * D) rest
      if !rest.isEmpty then none
      if h : 0 < V then
        if ids.any (· ≥ V) then none else
        let idf : Fin T → Fin V := fun t => ⟨ids[t.val]! % V, Nat.mod_lt _ h⟩
        let bm := mat b T D
        pure (joinInts [embNormSq idf bm, frobSq (embGS idf bm)])
      else none
  | _ => none

/-- one layer of one sample → (per-parameter norm samples, per-parameter flat grad samples) -/
def layer (bv : Variant) : List String → Option ((List Float × List (Array Float)) × List String)
  | "lin2" :: o :: i :: hb :: rest => do
      let O ← o.toNat?; let I ← i.toNat?; let hb ← bool? hb
      let (b, rest) ← takeN fdec? O rest
      let (a, rest) ← takeN fdec? I rest
      let bv' := vec b O; let av := vec a I
      let w := (normOfSq (linWeightNormSq2 bv' av), flatMat (linWeightGS2 bv' av))
      if hb then pure (([w.1, normOfSq (linBiasNormSq2 bv')], [w.2, b]), rest)
      else pure (([w.1], [w.2]), rest)
  | "lin3" :: t :: o :: i :: hb :: rest => do
      let T ← t.toNat?; let O ← o.toNat?; let I ← i.toNat?; let hb ← bool? hb
      let (b, rest) ← takeN fdec? (T * O) rest
      let (a, rest) ← takeN fdec? (T * I) rest
      let bm := mat b T O; let am := mat a T I
      let w := (normOfSqClamped (linWeightNormSq3 bm am), flatMat (linWeightGS3 bm am))
      if hb then
        pure (([w.1, normOfSqClamped (linBiasNormSq3 bv bm)], [w.2, Array.ofFn (linBiasGS3 bm)]), rest)
      else pure (([w.1], [w.2]), rest)
  | "emb" :: t :: v :: dd :: rest => do
      let T ← t.toNat?; let V ← v.toNat?; let D ← dd.toNat?
      let (ids, rest) ← takeN (·.toNat?) T rest
      let (b, rest) ← takeN fdec? (T * D) rest
      if h : 0 < V then
        if ids.any (· ≥ V) then none else
        let idf : Fin T → Fin V := fun t => ⟨ids[t.val]! % V, Nat.mod_lt _ h⟩
        let bm := mat b T D
        pure (([normOfSq (embNormSq idf bm)], [flatMat (embGS idf bm)]), rest)
      else none
  | "other" :: n :: rest => do
      -- fast gradient clipping without norm sampler: grad sample materialised, `create_norm_sample`
      let n ← n.toNat?
      let (g, rest) ← takeN fdec? n rest
      pure (([norm2 (vec g n)], [g]), rest)
  | _ => none

def sample (bv : Variant) : Nat → List String → Option ((List Float × List (Array Float)) × List String)
  | 0, rest => some (([], []), rest)
  | nl + 1, rest => do
      let ((pn, gs), rest) ← layer bv rest
      let ((pn', gs'), rest) ← sample bv nl rest
      pure ((pn ++ pn', gs ++ gs'), rest)

def samples (bv : Variant) (nl : Nat) : Nat → List String → Option (List (Array Float × Store Float) × List String)
  | 0, rest => some ([], rest)
  | B + 1, rest => do
      let ((pn, gs), rest) ← sample bv nl rest
      let (more, rest) ← samples bv nl B rest
      pure ((pn.toArray, gs.toArray) :: more, rest)

def ghostBatches (bv : Variant) (nl : Nat) : Nat → List String → Option (List (List (Array Float × Store Float)))
  | 0, [] => some []
  | 0, _ => none
  | nb + 1, b :: rest => do
      let B ← b.toNat?
      let (ss, rest) ← samples bv nl B rest
      let more ← ghostBatches bv nl nb rest
      pure (ss :: more)
  | _, [] => none

/-- `ghost <biasVariant> <lossVariant> <vec|col> <C> <P> <d…> <nl> <nb> {<B> {sample}}`
reply: `some <summed_grad> | norms <per-sample norm samples of every batch>` -/
def doGhost : List String → Option String
  | bvs :: lvs :: sh :: c :: rest => do
      let bv ← variant? bvs; let lv ← variant? lvs
      let sh ← (match sh with | "vec" => some LossShape.vec | "col" => some LossShape.col | _ => none)
      let C ← fdec? c
      let (dl, rest) ← takeList? (·.toNat?) rest
      let P := dl.length
      let d : Fin P → Nat := fun k => dl.getD k.val 0
      match rest with
      | nl :: nb :: rest =>
        let nl ← nl.toNat?; let nb ← nb.toNat?
        let bs ← ghostBatches bv nl nb rest
        if bs.any (fun b => b.any fun x => x.1.size ≠ P ∨ x.2.map (·.size) ≠ dl.toArray) then none
        let sg := bs.foldl (fun sg b => ghostAccumulateExec d lv sh C sg b) none
        let norms := bs.flatMap fun b => b.map fun x => normSample (lookupVec (n := P) x.1)
        match sg with
        | none => pure ("none | norms " ++ joinFloats norms)
        | some s => pure ("some " ++ joinFloats (flat s) ++ " | norms " ++ joinFloats norms)
      | _ => none
  | _ => none

def handle (line : String) : String :=
  match words line with
  | "clip" :: kind :: rest => (doClip kind rest).getD "bad-op"
  | "gn" :: rest => (doGn rest).getD "bad-op"
  | "ghost" :: rest => (doGhost rest).getD "bad-op"
  | _ => "bad-op"

def main : IO Unit := runPure handle
