import OpacusLean.Model.Proto
import OpacusLean.Model.Clip
/-! driver for C02 (Float instance of the clip model).  Requests:
  `clip <mode> <P> <d_0 … d_{P-1}> <nb> {<B> <B·Σd floats>}…`
      mode: `flat <C>` | `adaptive <C>` | `perlayer <C_0 … C_{P-1}>` (after `<P> <d…>`: see parse order below)
      reply: `some <Σd floats>` (summed_grad, parameter-major) | `none`
  exact parse order: `clip <kind> <P> <d…> <C…> <nb> …`
-/
open Opacus Opacus.Proto Opacus.Clip

/-- binary64 as the decimal value of its bit pattern (core's `String.toNat?` is native code, the
hex parser of `Proto` is interpreted: 20× faster on long tensor lines) -/
def fdec? (s : String) : Option Float := s.toNat?.map (fun n => Float.ofBits n.toUInt64)

def flat (s : Store Float) : List Float := s.toList.flatMap (·.toList)

/-- split `xs` into consecutive chunks of the given sizes -/
def chunks (sizes : List Nat) (xs : List Float) : Option (List (Array Float)) :=
  match sizes with
  | [] => if xs.isEmpty then some [] else none
  | s :: r => if xs.length < s then none else do
      let rest ← chunks r (xs.drop s)
      pure ((xs.take s).toArray :: rest)

def parseBatches (dl : List Nat) : Nat → List String → Option (List (List (List (Array Float))))
  | 0, [] => some []
  | 0, _ => none
  | nb + 1, b :: rest => do
      let B ← b.toNat?
      let tot := dl.foldl (· + ·) 0
      if rest.length < B * tot then none else
      let xs ← (rest.take (B * tot)).mapM fdec?
      let per ← chunks (List.replicate B tot) xs
      let samples ← per.mapM (fun a => chunks dl a.toList)
      let more ← parseBatches dl nb (rest.drop (B * tot))
      pure (samples :: more)
  | _, [] => none

def doClip (kind : String) (rest : List String) : Option String := do
  let (dl, rest) ← takeList? (·.toNat?) rest
  let P := dl.length
  let d : Fin P → Nat := fun k => dl.getD k.val 0
  let (mode, rest) ← (match kind with
    | "flat" => match rest with
        | c :: r => (fdec? c).map (fun c => (Mode.flat (P := P) c, r))
        | _ => none
    | "adaptive" => match rest with
        | c :: r => (fdec? c).map (fun c => (Mode.adaptive (P := P) c, r))
        | _ => none
    | "perlayer" =>
        if rest.length < P then none else
        ((rest.take P).mapM fdec?).map (fun cs => (Mode.perLayer (fun k => cs.getD k.val 0), rest.drop P))
    | _ => none : Option (Mode Float P × List String))
  match rest with
  | nb :: rest =>
    let nb ← nb.toNat?
    let bs ← parseBatches dl nb rest
    match bs.foldl (fun sg b => clipAndAccumulateExec d mode sg (b.map (·.toArray))) none with
    | none => pure "none"
    | some s => pure ("some " ++ joinFloats (flat s))
  | [] => none

def handle (line : String) : String :=
  match words line with
  | "clip" :: kind :: rest => (doClip kind rest).getD "bad-op"
  | _ => "bad-op"

def main : IO Unit := runPure handle
