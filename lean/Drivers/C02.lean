import OpacusLean.Model.Proto
import OpacusLean.Model.Clip
import OpacusLean.Model.GhostNorm
import OpacusLean.Model.ClipProto
/-! driver for C02 (Float instance of the clip model).  Requests:
  `clip <mode> <P> <d_0 … d_{P-1}> <nb> {<B> <B·Σd floats>}…`
      mode: `flat <C>` | `adaptive <C>` | `perlayer <C_0 … C_{P-1}>` (after `<P> <d…>`: see parse order below)
      reply: `some <Σd floats>` (summed_grad, parameter-major) | `none`
  exact parse order: `clip <kind> <P> <d…> <C…> <nb> …`
-/
open Opacus Opacus.Proto Opacus.Clip Opacus.Ghost Opacus.ClipProto

def doClip (kind : String) (rest : List String) : Option String := do
  let (dl, rest) ← takeList? (·.toNat?) rest
  let P := dl.length
  let d : Fin P → Nat := fun k => dl.getD k.val 0
  let (mode, rest) ← (match kind with
    | "flat" => match rest with
        | c :: r => (fdec? c).map (fun c => (Mode.flat (P := P) c, r))
        | _ => none
    | "adaptive" => match rest with
        | c :: r => (fdec? c).map (fun c => (Mode.adaptive (P := P) c, r))
        | _ => none
    | "perlayer" =>
        if rest.length < P then none else
        ((rest.take P).mapM fdec?).map (fun cs => (Mode.perLayer (fun k => cs.getD k.val 0), rest.drop P))
    | _ => none : Option (Mode Float P × List String))
  match rest with
  | nb :: rest =>
    let nb ← nb.toNat?
    let bs ← parseBatches dl nb rest
    match bs.foldl (fun sg b => clipAndAccumulateExec d mode sg (b.map (·.toArray))) none with
    | none => pure "none"
    | some s => pure ("some " ++ joinFloats (flat s))
  | [] => none

/-- exact integer channel: squared ghost norms next to the squared norms of the grad samples -/
def doGn : List String → Option String
  | "lin2" :: o :: i :: rest => do
      let O ← o.toNat?; let I ← i.toNat?
      let (b, rest) ← takeN (·.toInt?) O rest
      let (a, rest) ← takeN (·.toInt?) I rest
      if !rest.isEmpty then none
      let bv := vec b O; let av := vec a I
      pure (joinInts [linWeightNormSq2 bv av, linBiasNormSq2 bv, frobSq (linWeightGS2 bv av)])
  | "lin3" :: t :: o :: i :: rest => do
      let T ← t.toNat?; let O ← o.toNat?; let I ← i.toNat?
      let (b, rest) ← takeN (·.toInt?) (T * O) rest
      let (a, rest) ← takeN (·.toInt?) (T * I) rest
      if !rest.isEmpty then none
      let bm := mat b T O; let am := mat a T I
      pure (joinInts [linWeightNormSq3 bm am, linBiasNormSq3 .asCoded bm, linBiasNormSq3 .repaired bm,
        frobSq (linWeightGS3 bm am), vecSq (linBiasGS3 bm)])
  | "emb" :: t :: v :: dd :: rest => do
      let T ← t.toNat?; let V ← v.toNat?; let D ← dd.toNat?
      let (ids, rest) ← takeN (·.toNat?) T rest
      let (b, rest) ← takeN (·.toInt?) (T * D) rest
      if !rest.isEmpty then none
      if h : 0 < V then
        if ids.any (· ≥ V) then none else
        let idf : Fin T → Fin V := fun t => ⟨ids[t.val]! % V, Nat.mod_lt _ h⟩
        let bm := mat b T D
        pure (joinInts [embNormSq idf bm, frobSq (embGS idf bm)])
      else none
  | _ => none

/-- `ghost <biasVariant> <lossVariant> <vec|col> <C> <P> <d…> <nl> <nb> {<B> {sample}}`
reply: `some <summed_grad> | norms <per-sample norm samples of every batch>` -/
def doGhost : List String → Option String
  | bvs :: lvs :: sh :: c :: rest => do
      let bv ← variant? bvs; let lv ← variant? lvs
      let sh ← (match sh with | "vec" => some LossShape.vec | "col" => some LossShape.col | _ => none)
      let C ← fdec? c
      let (dl, rest) ← takeList? (·.toNat?) rest
      let P := dl.length
      let d : Fin P → Nat := fun k => dl.getD k.val 0
      match rest with
      | nl :: nb :: rest =>
        let nl ← nl.toNat?; let nb ← nb.toNat?
        let (bs, rest) ← ghostBatches bv nl nb rest
        if !rest.isEmpty then none
        if bs.any (fun b => b.any fun x => x.1.size ≠ P ∨ x.2.map (·.size) ≠ dl.toArray) then none
        let sg := bs.foldl (fun sg b => ghostAccumulateExec d lv sh C sg b) none
        let norms := bs.flatMap fun b => b.map fun x => normSample (lookupVec (n := P) x.1)
        match sg with
        | none => pure ("none | norms " ++ joinFloats norms)
        | some s => pure ("some " ++ joinFloats (flat s) ++ " | norms " ++ joinFloats norms)
      | _ => none
  | _ => none

def handle (line : String) : String :=
  match words line with
  | "clip" :: kind :: rest => (doClip kind rest).getD "bad-op"
  | "gn" :: rest => (doGn rest).getD "bad-op"
  | "ghost" :: rest => (doGhost rest).getD "bad-op"
  | _ => "bad-op"

def main : IO Unit := runPure handle
