import OpacusLean.Model.AdaClipFloat
/-! driver for C20 (Float instance).  `v` = `a` (asCoded) | `r` (repaired).  Requests:
  `ada new <acct v> <empty v> <accum v> <sigma> <sigmaB> <eta> <gamma> <minC> <maxC> <eps> <C0>`
        reply `ok <live noise_multiplier>` | `err:…`
  `ada phys <skip 0|1> <z> <n> <norm_1 … norm_n>`
        reply `rel <clipUsed> <gradMult> <gradStd> <countStd> <sampleSize> <noisy> <recorded> <newC> <k> <factor_1 … factor_k>`
            | `skip <k> <factors…>` | `err:…`
  `ghost new <acct v> <sigma0> <eta> <gamma> <minC> <maxC> <C0>`        reply `ok <live noise_multiplier>`
  `ghost step <z> <n> <norms…>`                                         reply as `ada phys`
-/
open Opacus Opacus.Proto Opacus.AdaClip

structure D where
  ada : Option (Ada.Cfg Float × Ada.State Float)
  ghost : Option (Ghost.Cfg Float × Ghost.State Float)

def variant? : String → Option Variant
  | "a" => some .asCoded
  | "r" => some .repaired
  | _ => none

def resStr : Res Float → String
  | .released o =>
    s!"rel {floatHex o.clipUsed} {floatHex o.gradMult} {floatHex o.gradStd} {floatHex o.countStd} {o.sampleSize} {floatHex o.noisy} {floatHex o.recorded} {floatHex o.newC} {o.factors.length} {joinFloats o.factors}"
  | .skipped fs => s!"skip {fs.length} {joinFloats fs}"
  | .err e => e.str

def stepLine (d : D) (line : String) : D × String :=
  match words line with
  | ["ada", "new", va, ve, vc, sg, sb, eta, gam, lo, hi, eps, c0] =>
    match variant? va, variant? ve, variant? vc, floats? [sg, sb, eta, gam, lo, hi, eps, c0] with
    | some va, some ve, some vc, some [sg, sb, eta, gam, lo, hi, eps, c0] =>
      let cfg : Ada.Cfg Float := ⟨sg, sb, eta, gam, lo, hi, eps, va, ve, vc⟩
      match Ada.construct cfg c0 with
      | .ok s => ({ d with ada := some (cfg, s) }, s!"ok {floatHex s.mult}")
      | .error e => ({ d with ada := none }, e.str)
    | _, _, _, _ => (d, "bad-op")
  | "ada" :: "phys" :: sk :: z :: rest =>
    match d.ada, bool? sk, float? z, takeList? float? rest with
    | some (cfg, s), some sk, some z, some (norms, []) =>
      let (s', r) := Ada.phys cfg s norms z sk
      ({ d with ada := some (cfg, s') }, resStr r)
    | none, _, _, _ => (d, "bad-state")
    | _, _, _, _ => (d, "bad-op")
  | ["ghost", "new", va, sg, eta, gam, lo, hi, c0] =>
    match variant? va, floats? [sg, eta, gam, lo, hi, c0] with
    | some va, some [sg, eta, gam, lo, hi, c0] =>
      let s := Ghost.init sg c0
      ({ d with ghost := some (⟨eta, gam, lo, hi, va⟩, s) }, s!"ok {floatHex s.mult}")
    | _, _ => (d, "bad-op")
  | "ghost" :: "step" :: z :: rest =>
    match d.ghost, float? z, takeList? float? rest with
    | some (cfg, s), some z, some (norms, []) =>
      let (s', r) := Ghost.step cfg s norms z
      ({ d with ghost := some (cfg, s') }, resStr r)
    | none, _, _ => (d, "bad-state")
    | _, _, _ => (d, "bad-op")
  | _ => (d, "bad-op")

def main : IO Unit := runLines stepLine ⟨none, none⟩
