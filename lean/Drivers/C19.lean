import OpacusLean.Model.Wrap
import OpacusLean.Model.Proto
/-! driver for C19 (`OpacusLean.Model.Wrap`).  Requests:
  `new <np> <rg_0 … rg_{np-1}> <nl> {<kind both|gradOnly|neither> <k> <idx_1 … idx_k> <userFwdHooks>}*`
  `wrap <hooks|functorch|ew|ghost>` | `wrapopt` | `fwd <0|1>` | `bwd` | `step <skip 0|1>` | `ozg` | `mzg`
  `hooks <0|1>` | `unwrap <6 fix bits: activations maxBatchLen summedGrad normSample fullBwdFlag frozenGuard>`
Reply: `<ok|err:kind> R <root hook list length|-> | <param>;… | <layer>;…`
  param = `gs fc cur sg ns` with gs ∈ {-,N,T,L<n>}, fc ∈ {-,<n>}, cur ∈ {0,1}, sg ∈ {-,N,T}, ns ∈ {0,1}
  layer = `act mbl ft oh fb`  with act ∈ {-,<n>}, mbl/ft/oh ∈ {0,1}, fb ∈ {-,F,T} -/
open Opacus Opacus.Proto Opacus.Wrap

def errStr : Err → String
  | .attrError => "err:attr-error" | .noHooksFound => "err:no-hooks-found" | .alreadyWrapped => "err:already-wrapped"
  | .notWrapped => "err:not-wrapped" | .ewAccum => "err:ew-accum" | .noGradSample => "err:no-grad-sample"
  | .processed => "err:processed" | .noGraph => "err:no-graph" | .noActivations => "err:no-activations"
  | .tied => "err:tied" | .noNormSample => "err:no-norm-sample"

def b01 (b : Bool) : String := if b then "1" else "0"

def pStr (p : Param) : String :=
  let gs := match p.gradSample with | none => "-" | some .none_ => "N" | some .tensor => "T" | some (.list n) => s!"L{n}"
  let fc := match p.fwdCounter with | none => "-" | some n => toString n
  let sg := match p.summedGrad with | none => "-" | some false => "N" | some true => "T"
  s!"{gs} {fc} {b01 p.curGS} {sg} {b01 p.normSample}"

def lStr (l : Layer) : String :=
  let act := match l.activations with | none => "-" | some n => toString n
  let fb := match l.fullBwdFlag with | none => "-" | some false => "F" | some true => "T"
  s!"{act} {b01 l.maxBatchLen} {b01 l.ftCompute} {b01 l.opacusHooks} {fb}"

def dump (s : St) : String :=
  let r := match s.rootHooks with | none => "-" | some n => toString n
  s!"R {r} | " ++ ";".intercalate (s.params.map pStr) ++ " | " ++ ";".intercalate (s.layers.map lStr)

def kind? : String → Option LKind
  | "both" => some .both | "gradOnly" => some .gradOnly | "neither" => some .neither | _ => none

def mode? : String → Option Mode
  | "hooks" => some .hooks | "functorch" => some .functorch | "ew" => some .ew | "ghost" => some .ghost | _ => none

partial def parseLayers : Nat → List String → Option (List Layer)
  | 0, [] => some []
  | 0, _ => none
  | n + 1, k :: rest => do
      let kd ← kind? k
      let (idx, rest') ← takeList? (·.toNat?) rest
      match rest' with
      | u :: rest'' =>
        let u ← u.toNat?
        let ls ← parseLayers n rest''
        pure ({ kind := kd, params := idx, userFwdHooks := u } :: ls)
      | [] => none
  | _, [] => none

def fix? (s : String) : Option Fix :=
  match s.toList.map (· == '1') with
  | [a, b, c, d, e, f] => if s.toList.all (fun c => c == '0' || c == '1') then some ⟨a, b, c, d, e, f⟩ else none
  | _ => none

def reply (r : St × Option Err) : St × String :=
  (r.1, (match r.2 with | none => "ok" | some e => errStr e) ++ " " ++ dump r.1)

def stepLine (s : St) (line : String) : St × String :=
  match words line with
  | "new" :: rest =>
    match takeList? bool? rest with
    | some (rgs, nl :: rest') =>
      match nl.toNat? with
      | some nl =>
        match parseLayers nl rest' with
        | some ls => let s' : St := { params := rgs.map fun b => { requiresGrad := b }, layers := ls }; (s', "ok " ++ dump s')
        | none => (s, "bad-op")
      | none => (s, "bad-op")
    | _ => (s, "bad-op")
  | ["wrap", m] => match mode? m with | some m => reply (step Fix.asCoded s (.wrap m)) | none => (s, "bad-op")
  | ["wrapopt"] => reply (step Fix.asCoded s .wrapOpt)
  | ["fwd", a] => match bool? a with | some a => reply (step Fix.asCoded s (.fwd a)) | none => (s, "bad-op")
  | ["bwd"] => reply (step Fix.asCoded s .bwd)
  | ["step", k] => match bool? k with | some k => reply (step Fix.asCoded s (.optStep k)) | none => (s, "bad-op")
  | ["ozg"] => reply (step Fix.asCoded s .optZeroGrad)
  | ["mzg"] => reply (step Fix.asCoded s .modZeroGrad)
  | ["hooks", b] => match bool? b with | some b => reply (step Fix.asCoded s (.setHooks b)) | none => (s, "bad-op")
  | ["unwrap", f] => match fix? f with | some fx => reply (step fx s .unwrap) | none => (s, "bad-op")
  | _ => (s, "bad-op")

def main : IO Unit := runLines stepLine { params := [], layers := [] }
