import OpacusLean.Model.Proto
import OpacusLean.Model.Clip
import OpacusLean.Model.GhostNorm
import OpacusLean.Model.ClipStep
import OpacusLean.Model.ClipProto
/-! driver for C03: the step machine over the executable carrier (Float).  Requests:
  `new <flat|perlayer|adaptive|ghost> <P> <d…> <C…> <mean|sum> <E>`       → `ok`
  `bw <B> <B·Σd floats>`            backward pass of a GradSampleModule (per-sample gradients)   → `ok`
  `gbw <biasVariant> <lossVariant> <vec|col> <nl> <B> {sample}`   ghost `loss.backward()` on one physical batch → `ok <p.grad>`
  `skip <0|1>`                      signal_skip_step                                               → `ok`
  `step <Σd floats>`                pre_step with the noise tensor z  → `<0|1> summed <…> grad <…>` | `err:no-grad-sample`
  `zg`                              zero_grad                                                      → `ok`
  `ebs <N> <L> <poisson 0|1>`       → `<engineEbs> <ebsFloat N L> <ebsExact N L> <stepsFloat L>`
-/
open Opacus Opacus.Proto Opacus.Clip Opacus.Ghost Opacus.Step Opacus.ClipProto

structure D where
  dl : List Nat
  mode : Mode Float dl.length
  ghost : Bool
  C : Float
  red : Reduction
  E : Nat
  st : St (Store Float)

def D.d (x : D) : Fin x.dl.length → Nat := fun k => x.dl.getD k.val 0
def D.carrier (x : D) : Carrier (Store Float) Float := execCarrier x.d x.mode Nat.toFloat

def showOpt (o : Option (Store Float)) : String :=
  match o with
  | none => "none"
  | some s => joinFloats (flat s)

def toStore (dl : List Nat) (xs : List Float) : Option (Store Float) := (chunks dl xs).map (·.toArray)

def stepLine (s : Option D) (line : String) : Option D × String :=
  match words line, s with
  | "ebs" :: n :: l :: p :: [], _ =>
    match n.toNat?, l.toNat?, bool? p with
    | some N, some L, some po => (s, s!"{engineEbs N L po} {ebsFloat N L} {ebsExact N L} {stepsFloat L}")
    | _, _, _ => (s, "bad-op")
  | "new" :: kind :: rest, _ =>
    match parseMode kind rest with
    | some ⟨dl, mode, [r, e]⟩ =>
      match (match r with | "mean" => some Reduction.mean | "sum" => some Reduction.sum | _ => none), e.toNat? with
      | some red, some E =>
        let C := match mode with | .flat c => c | .adaptive c => c | .perLayer _ => 0
        (some ⟨dl, mode, kind == "ghost", C, red, E, St.init⟩, "ok")
      | _, _ => (s, "bad-op")
    | _ => (s, "bad-op")
  | "bw" :: b :: rest, some x =>
    match b.toNat? with
    | some B =>
      let tot := x.dl.foldl (· + ·) 0
      match rest.mapM fdec? with
      | some xs =>
        if xs.length ≠ B * tot then (s, "bad-op") else
        match (chunks (List.replicate B tot) xs).bind (fun per => per.mapM (fun a => toStore x.dl a.toList)) with
        | some batch => (some { x with st := backward x.st batch }, "ok")
        | none => (s, "bad-op")
      | none => (s, "bad-op")
    | none => (s, "bad-op")
  | "gbw" :: bvs :: lvs :: sh :: nl :: b :: rest, some x =>
    match variant? bvs, variant? lvs, nl.toNat?, b.toNat? with
    | some bv, some lv, some nl, some B =>
      match (match sh with | "vec" => some LossShape.vec | "col" => some LossShape.col | _ => none), samples bv nl B rest with
      | some sh, some (ss, []) =>
        if ss.any (fun y => y.1.size ≠ x.dl.length ∨ y.2.map (·.size) ≠ x.dl.toArray) then (s, "bad-op") else
        -- `p.grad` of this physical batch: the executable form of `ghostBatchGrad` (accumulated from none)
        match ghostAccumulateExec x.d lv sh x.C none ss with
        | some pg => (some { x with st := ghostBackward x.st pg }, "ok " ++ joinFloats (flat pg))
        | none => (s, "bad-state")
      | _, _ => (s, "bad-op")
    | _, _, _, _ => (s, "bad-op")
  | ["skip", b], some x =>
    match bool? b with
    | some b => (some { x with st := signalSkip x.st b }, "ok")
    | none => (s, "bad-op")
  | ["zg"], some x => (some { x with st := zeroGrad x.st }, "ok")
  | "step" :: rest, some x =>
    match (rest.mapM fdec?).bind (toStore x.dl) with
    | some z =>
      let r := if x.ghost then ghostPreStep x.carrier x.red x.E z x.st else preStep x.carrier x.red x.E z x.st
      match r with
      | none => (s, "err:no-grad-sample")
      | some (st', ret) =>
        (some { x with st := st' }, s!"{boolStr ret} summed {showOpt st'.summed} grad {showOpt st'.grad}")
    | none => (s, "bad-op")
  | _, _ => (s, "bad-op")

def main : IO Unit := runLines stepLine none
