import OpacusLean.Model.Proto
import OpacusLean.Model.GradSample
/-! driver for C01, grad samplers.  First token: scalar channel `i` (Int, decimal) or `f` (Float,
16 hex digits); then the op.  Tensors are flat row-major lists whose length follows from the dims.
Replies: one or more blocks `<tag> <count> v…`; `<tag> -` for an entry the sampler does not return;
`err:<kind>` for modelled exceptions; `bad-op` for unparsable requests.

  linear N T O I wr br  a[N·T·I] b[N·T·O]            → W … B …        (br ∈ n|0|1)
  embedding var pad N T V D  idx[N·T] b[N·T·D]       → K rows W …     (pad = -1 ⇒ none)
  embbag var mode N L V D  index[L] offset[N] b[N·D] → W …            (mode ∈ sum|mean)
  norm N C S wr br  xhat[N·C·S] b[N·C·S]             → W … B …
  layernorm var N M K wr br  xhat[N·M·K] b[N·M·K]    → W … B … | err:AttributeError
  seqbias N L E  b[N·(L+1)·E]                        → B …
-/
open Opacus Opacus.Proto Opacus.GS

structure Codec (R : Type) where
  parse : String → Option R
  show_ : R → String

def takeArr {α} (p : String → Option α) (k : Nat) (ws : List String) : Option (Array α × List String) :=
  if ws.length < k then none else do
    let xs ← (ws.take k).mapM p
    pure (xs.toArray, ws.drop k)

def t1 {α} [Inhabited α] (xs : Array α) (d0 : Nat) : Fin d0 → α := fun i => xs[i.val]!
def t2 {α} [Inhabited α] (xs : Array α) (d0 d1 : Nat) : Fin d0 → Fin d1 → α :=
  fun i j => xs[i.val * d1 + j.val]!
def t3 {α} [Inhabited α] (xs : Array α) (d0 d1 d2 : Nat) : Fin d0 → Fin d1 → Fin d2 → α :=
  fun i j k => xs[(i.val * d1 + j.val) * d2 + k.val]!

def f1 {α} {d0} (f : Fin d0 → α) : List α := List.ofFn f
def f2 {α} {d0 d1} (f : Fin d0 → Fin d1 → α) : List α := (List.ofFn fun i => f1 (f i)).flatten
def f3 {α} {d0 d1 d2} (f : Fin d0 → Fin d1 → Fin d2 → α) : List α := (List.ofFn fun i => f2 (f i)).flatten

def block {R} (c : Codec R) (tag : String) (xs : Option (List R)) : String :=
  match xs with
  | none => s!"{tag} -"
  | some l => s!"{tag} {l.length} " ++ " ".intercalate (l.map c.show_)

def var? : String → Option Variant
  | "asCoded" => some .asCoded
  | "repaired" => some .repaired
  | _ => none

def optBool? : String → Option (Option Bool)
  | "n" => some none
  | "0" => some (some false)
  | "1" => some (some true)
  | _ => none

/-- indices must be in range (the real layers raise on anything else) -/
def finArr? (V : Nat) (xs : Array Nat) : Option (Array (Fin V)) :=
  xs.mapM fun x => if h : x < V then some ⟨x, h⟩ else none

def handle {R} [Add R] [Mul R] [Zero R] [Div R] [Inhabited R] (cast : Nat → R) (c : Codec R)
    (ws : List String) : String :=
  let r : Option String :=
    match ws with
    | "linear" :: n :: t :: o :: i :: wr :: br :: rest => do
      let N ← n.toNat?; let T ← t.toNat?; let O ← o.toNat?; let I ← i.toNat?
      let wr ← bool? wr; let br ← optBool? br
      let (a, rest) ← takeArr c.parse (N * T * I) rest
      let (b, rest) ← takeArr c.parse (N * T * O) rest
      if rest ≠ [] then none else
      let out := linearGS wr br (t3 a N T I) (t3 b N T O)
      pure (block c "W" (out.weight.map f3) ++ " " ++ block c "B" (out.bias.map f2))
    | "embedding" :: v :: pad :: n :: t :: vv :: d :: rest => do
      let var ← var? v; let pad ← pad.toInt?
      let N ← n.toNat?; let T ← t.toNat?; let V ← vv.toNat?; let D ← d.toNat?
      let (idx, rest) ← takeArr String.toNat? (N * T) rest
      let (b, rest) ← takeArr c.parse (N * T * D) rest
      if rest ≠ [] then none else
      match finArr? V idx with
      | none => pure "err:index"
      | some idx =>
        if hV : V = 0 then pure "err:index" else
        have : Inhabited (Fin V) := ⟨⟨0, Nat.pos_of_ne_zero hV⟩⟩
        let padF : Option (Fin V) := if h : 0 ≤ pad ∧ pad.toNat < V then some ⟨pad.toNat, h.2⟩ else none
        let out := embeddingGSRows var padF (t2 idx N T) (t3 b N T D)
        pure (s!"K {out.1} " ++ block c "W" (some (f3 out.2)))
    | "embbag" :: v :: mode :: n :: l :: vv :: d :: rest => do
      let var ← var? v
      let mode ← (if mode = "sum" then some BagMode.sum else if mode = "mean" then some BagMode.mean else none)
      let N ← n.toNat?; let L ← l.toNat?; let V ← vv.toNat?; let D ← d.toNat?
      let (index, rest) ← takeArr String.toNat? L rest
      let (off, rest) ← takeArr String.toNat? N rest
      let (b, rest) ← takeArr c.parse (N * D) rest
      if rest ≠ [] then none else
      match finArr? V index with
      | none => pure "err:index"
      | some index =>
        if hV : V = 0 then pure "err:index" else
        have : Inhabited (Fin V) := ⟨⟨0, Nat.pos_of_ne_zero hV⟩⟩
        let out := embeddingBagGS cast var mode (t1 index L) (t1 off N) (t2 b N D)
        pure (block c "W" (some (f3 out)))
    | "norm" :: n :: cc :: s :: wr :: br :: rest => do
      let N ← n.toNat?; let C ← cc.toNat?; let S ← s.toNat?
      let wr ← bool? wr; let br ← optBool? br
      let (x, rest) ← takeArr c.parse (N * C * S) rest
      let (b, rest) ← takeArr c.parse (N * C * S) rest
      if rest ≠ [] then none else
      let out := normGS wr br (t3 x N C S) (t3 b N C S)
      pure (block c "W" (out.weight.map f2) ++ " " ++ block c "B" (out.bias.map f2))
    | "layernorm" :: v :: n :: m :: k :: wr :: br :: rest => do
      let var ← var? v
      let N ← n.toNat?; let M ← m.toNat?; let K ← k.toNat?
      let wr ← bool? wr; let br ← optBool? br
      let (x, rest) ← takeArr c.parse (N * M * K) rest
      let (b, rest) ← takeArr c.parse (N * M * K) rest
      if rest ≠ [] then none else
      match layerNormGS var wr br (t3 x N M K) (t3 b N M K) with
      | .error .attributeError => pure "err:AttributeError"
      | .ok out => pure (block c "W" (out.weight.map f2) ++ " " ++ block c "B" (out.bias.map f2))
    | "seqbias" :: n :: l :: e :: rest => do
      let N ← n.toNat?; let L ← l.toNat?; let E ← e.toNat?
      let (b, rest) ← takeArr c.parse (N * (L + 1) * E) rest
      if rest ≠ [] then none else
      pure (block c "B" (some (f2 (sequenceBiasGS (t3 b N (L + 1) E)))))
    | _ => none
  r.getD "bad-op"

def intCodec : Codec Int := ⟨String.toInt?, toString⟩
def floatCodec : Codec Float := ⟨float?, floatHex⟩

def step (line : String) : String :=
  match words line with
  | "i" :: ws => handle (R := Int) Int.ofNat intCodec ws
  | "f" :: ws => handle (R := Float) Nat.toFloat floatCodec ws
  | _ => "bad-op"

def main : IO Unit := runPure step
