import OpacusLean.Model.Proto
import OpacusLean.Model.GradSample
import OpacusLean.Model.GradSampleMachine
/-! driver for C01, GradSampleModule bookkeeping machine instantiated with integer tensors and the
`nn.Linear` / `RNNLinear` sampler of `Model/GradSample.lean`.  Stateful; requests:

  static <batchFirst 0|1> <lossMean 0|1> <M> then per module: <rnn 0|1> <O> <I> <wId|-1> <bId|-1>
         (ids of the TRAINABLE weight / bias parameter; -1 = frozen or absent)        → ok
  fwd <m> <capture 0|1> <rank> <shape…> <data…>      raw layer input, original axis order → ok
  bwd <m> <rank> <shape…> <data…>                    raw grad w.r.t. the layer output     → ok | err:<kind>
  setmax <m> <n> | zero | enable | disable | forbid | allow                               → ok
  dump <P>     for p in 0..P-1:  `p <counter> C <rows|-> [data] G <none | T rows data | L k (rows data)…>` ;
               for m in 0..M-1:  `m <stack depth|-> <maxLen|->`
-/
open Opacus Opacus.Proto Opacus.GS Opacus.GSM

/-- one per-sample-gradient row: the flattened parameter-shaped tensor; `[]` is the zero row -/
structure Vec where
  v : List Int

def vadd : List Int → List Int → List Int
  | [], ys => ys
  | xs, [] => xs
  | x :: xs, y :: ys => (x + y) :: vadd xs ys

instance : Add Vec := ⟨fun a b => ⟨vadd a.v b.v⟩⟩
instance : Zero Vec := ⟨⟨[]⟩⟩

/-- raw tensor: shape and row-major data -/
structure NT where
  shape : List Nat
  data : Array Int

def ravel (shape idx : List Nat) : Nat := (shape.zip idx).foldl (fun acc (s, i) => acc * s + i) 0

def unravel (shape : List Nat) (f : Nat) : List Nat :=
  (shape.foldr (fun s (acc : List Nat × Nat) => ((acc.2 % s) :: acc.1, acc.2 / s)) ([], f)).1

/-- `t.permute(perm)` -/
def NT.permute (t : NT) (perm : List Nat) : NT :=
  let newShape := perm.map fun j => t.shape.getD j 0
  let size := newShape.foldl (· * ·) 1
  let data := Array.ofFn (n := size) fun f =>
    let idx' := unravel newShape f.val
    -- old index at axis j = new index at the position i with perm[i] = j
    let old := (List.range t.shape.length).map fun j =>
      match perm.findIdx? (· = j) with
      | some i => idx'.getD i 0
      | none => 0
    t.data[ravel t.shape old]!
  ⟨newShape, data⟩

structure ModInfo where
  rnn : Bool
  O : Nat
  I : Nat
  wId : Option Nat
  bId : Option Nat

structure D where
  S : Static
  mods : Array ModInfo
  σ : State NT Vec

def t3 (xs : Array Int) (d0 d1 d2 : Nat) : Fin d0 → Fin d1 → Fin d2 → Int :=
  fun i j k => xs[(i.val * d1 + j.val) * d2 + k.val]!

/-- batch-first view `(N, T, last)` of a raw tensor of module `m` -/
def batchFirstView (S : Static) (m : Nat) (t : NT) : NT :=
  let bd := batchDim S m
  if bd = 0 then t else t.permute (batchPerm bd t.shape.length)

def sampLinear (S : Static) (mods : Array ModInfo) (m : Nat) (a : NT) (b : NT) (p : Nat) : Rows Vec :=
  match mods[m]? with
  | none => ⟨0, fun _ => 0⟩
  | some mi =>
    let a' := batchFirstView S m a
    let b' := batchFirstView S m b
    let N := a'.shape.headD 0
    let T := (a'.shape.drop 1).dropLast.foldl (· * ·) 1
    let out := linearGS (R := Int) (mi.wId.isSome) (mi.bId.map fun _ => true) (t3 a'.data N T mi.I) (t3 b'.data N T mi.O)
    if mi.wId = some p then
      match out.weight with
      | some w => ⟨N, fun n => if h : n < N then ⟨(List.ofFn fun i => List.ofFn fun j => w ⟨n, h⟩ i j).flatten⟩ else 0⟩
      | none => ⟨0, fun _ => 0⟩
    else if mi.bId = some p then
      match out.bias with
      | some w => ⟨N, fun n => if h : n < N then ⟨List.ofFn fun i => w ⟨n, h⟩ i⟩ else 0⟩
      | none => ⟨0, fun _ => 0⟩
    else ⟨0, fun _ => 0⟩

def smulNT (n : Nat) (b : NT) : NT := ⟨b.shape, b.data.map (· * (n : Int))⟩

def takeNT (ws : List String) : Option (NT × List String) := do
  match ws with
  | r :: rest =>
    let r ← r.toNat?
    if rest.length < r then none else
    let shape ← (rest.take r).mapM String.toNat?
    let rest := rest.drop r
    let size := shape.foldl (· * ·) 1
    if rest.length < size then none else
    let data ← (rest.take size).mapM String.toInt?
    pure (⟨shape, data.toArray⟩, rest.drop size)
  | [] => none

def paramWidth (mods : Array ModInfo) (p : Nat) : Nat :=
  mods.foldl (fun acc mi => if mi.wId = some p then mi.O * mi.I else if mi.bId = some p then mi.O else acc) 0

def showRows (w : Nat) (r : Rows Vec) : String :=
  let cells := (List.range r.n).flatMap fun i =>
    let v := (r.row i).v
    if v.isEmpty then List.replicate w (0 : Int) else v
  s!"{r.n} " ++ " ".intercalate (cells.map toString)

def dump (d : D) (P : Nat) : String :=
  let ps := (List.range P).map fun p =>
    let w := paramWidth d.mods p
    let c := match d.σ.current p with | none => "-" | some r => showRows w r
    let g := match d.σ.gradSample p with
      | .none => "none"
      | .tensor t => "T " ++ showRows w t
      | .list ts => s!"L {ts.length} " ++ " ".intercalate (ts.map (showRows w))
    s!"p {d.σ.counter p} C {c} G {g}"
  let ms := (List.range d.mods.size).map fun m =>
    let st := match d.σ.acts m with | none => "-" | some l => toString l.length
    let ml := match d.σ.maxLen m with | none => "-" | some n => toString n
    s!"m {st} {ml}"
  " ; ".intercalate (ps ++ ms)

def errStr : Err → String
  | .noActivations => "err:no-activations"
  | .popEmpty => "err:pop-empty"
  | .shape => "err:shape"
  | .accumForbidden => "err:accum-forbidden"

def parseMods : Nat → List String → Option (List ModInfo)
  | 0, [] => some []
  | k + 1, r :: o :: i :: w :: b :: rest => do
    let r ← bool? r; let o ← o.toNat?; let i ← i.toNat?; let w ← w.toInt?; let b ← b.toInt?
    let tl ← parseMods k rest
    pure (⟨r, o, i, if w < 0 then none else some w.toNat, if b < 0 then none else some b.toNat⟩ :: tl)
  | _, _ => none

def fresh : D := ⟨⟨fun _ => [], fun _ => false, true, true⟩, #[], State.init⟩

/-! The model keeps its state as functions `Nat → …`; every step wraps the previous closures, and a
read re-evaluates the whole chain (three reads per parameter per step: exponential in the trace
length under the interpreter).  The DRIVER therefore tabulates the state after every step over the
module / parameter ids that exist; the values are unchanged. -/
def freezeRows (r : Rows Vec) : Rows Vec :=
  let arr := (Array.range r.n).map r.row
  ⟨r.n, fun i => arr.getD i 0⟩

def freezeGS : GSVal Vec → GSVal Vec
  | .none => .none
  | .tensor t => .tensor (freezeRows t)
  | .list ts => .list (ts.map freezeRows)

def freeze (mods : Array ModInfo) (σ : State NT Vec) : State NT Vec :=
  let P := mods.foldl (fun acc mi =>
    max acc (max ((mi.wId.map (· + 1)).getD 0) ((mi.bId.map (· + 1)).getD 0))) 0
  let M := mods.size
  let acts := (Array.range M).map σ.acts
  let maxLen := (Array.range M).map σ.maxLen
  let counter := (Array.range P).map σ.counter
  let current := (Array.range P).map fun p => (σ.current p).map freezeRows
  let gs := (Array.range P).map fun p => freezeGS (σ.gradSample p)
  { σ with
    acts := fun m => if m < M then acts.getD m none else σ.acts m
    maxLen := fun m => if m < M then maxLen.getD m none else σ.maxLen m
    counter := fun p => if p < P then counter.getD p 0 else σ.counter p
    current := fun p => if p < P then current.getD p none else σ.current p
    gradSample := fun p => if p < P then gs.getD p .none else σ.gradSample p }

def apply (d : D) (op : Op NT NT) : D × String :=
  let σ' := freeze d.mods (step d.S smulNT (sampLinear d.S d.mods) d.σ op)
  ({ d with σ := σ' }, match σ'.err with | some e => errStr e | none => "ok")

def stepLine (d : D) (line : String) : D × String :=
  match words line with
  | "static" :: bf :: lm :: m :: rest =>
    match bool? bf, bool? lm, m.toNat? with
    | some bf, some lm, some M =>
      match parseMods M rest with
      | some ms =>
        let arr := ms.toArray
        let S : Static :=
          { params := fun m => match arr[m]? with
              | some mi => (mi.wId.toList ++ mi.bId.toList)
              | none => []
            rnnLinear := fun m => match arr[m]? with | some mi => mi.rnn | none => false
            batchFirst := bf, lossMean := lm }
        (⟨S, arr, State.init⟩, "ok")
      | none => (d, "bad-op")
    | _, _, _ => (d, "bad-op")
  | "fwd" :: m :: cap :: rest =>
    match m.toNat?, bool? cap, takeNT rest with
    | some m, some cap, some (t, []) =>
      let len := (t.shape.getD (batchDim d.S m) 0)
      apply d (.fwd m t len cap)
    | _, _, _ => (d, "bad-op")
  | "bwd" :: m :: rest =>
    match m.toNat?, takeNT rest with
    | some m, some (t, []) => apply d (.bwd m t)
    | _, _ => (d, "bad-op")
  | ["setmax", m, n] =>
    match m.toNat?, n.toNat? with
    | some m, some n => apply d (.setMaxLen m n)
    | _, _ => (d, "bad-op")
  | ["zero"] => apply d .zeroGrad
  | ["enable"] => apply d .enableHooks
  | ["disable"] => apply d .disableHooks
  | ["forbid"] => apply d .forbidAccum
  | ["allow"] => apply d .allowAccum
  | ["dump", p] =>
    match p.toNat? with
    | some P => (d, dump d P)
    | none => (d, "bad-op")
  | _ => (d, "bad-op")

def main : IO Unit := runLines stepLine fresh
