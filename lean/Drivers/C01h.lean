import OpacusLean.Model.Proto
import OpacusLean.Model.HookCover
/-! driver for C01 `hooked_cover`: one request per line

  `tree <tokens…>`   preorder encoding of a module tree: every node is
                     `<k> <id_1 … id_k> <hasSampler 0|1> <rnnWrapper 0|1> <nkids>` followed by its kids
  reply: `wf=<0|1> units <n> | <ids of unit 1> | … ; all <ids…>`
-/
open Opacus Opacus.Proto Opacus.HookCover

partial def parseNode : List String → Option (Mod × List String)
  | k :: rest => do
    let k ← k.toNat?
    let ids ← (rest.take k).mapM String.toNat?
    if ids.length ≠ k then none
    match rest.drop k with
    | s :: r :: nk :: rest' => do
      let nk ← nk.toNat?
      let rec kids (n : Nat) (toks : List String) (acc : List Mod) : Option (List Mod × List String) :=
        match n with
        | 0 => some (acc.reverse, toks)
        | n + 1 => do
          let (m, toks') ← parseNode toks
          kids n toks' (m :: acc)
      let (ks, rest'') ← kids nk rest' []
      some (.node ids (s == "1") (r == "1") ks, rest'')
    | _ => none
  | [] => none

def fmt (l : List Nat) : String := " ".intercalate (l.map toString)

def reply (line : String) : String :=
  match words line with
  | "tree" :: toks =>
    match parseNode toks with
    | some (m, []) =>
      let us := units m
      s!"wf={if wellFormed m then 1 else 0} units {us.length} | " ++ " | ".intercalate (us.map fmt) ++ " ; all " ++ fmt (allParams m)
    | _ => "bad-op"
  | _ => "bad-op"

def main : IO Unit := runPure reply
