import OpacusLean.Model.Proto
import OpacusLean.Model.Dist
/-! driver for C18 (`Float` instance of `OpacusLean.Model.Dist`).  One request per line:

  run <A|H> <mean|sum> <fxEmpty 0|1> <fxScale 0|1> <W> <P> <dims…P> <E> <k> <lr> <std> <noisy 0|1>
      <flat|perlayer> <C…P> <init: W·D floats> <T> { per step: { per rank: <n> <n·D floats> } <noise: W·P floats> }

  A = DistributedDPOptimizer / ghost twin / SimpleDistributedPerLayerOptimizer (pre_step + reduce_gradients)
  H = DistributedPerLayerOptimizer under torch DDP (per-parameter hook + DDP averaging)
  D = Σ dims; floats are binary64 hex; noise = the value the patched `torch.normal` returns on
  that rank for that parameter in that step (a constant tensor).

reply:  `ok|<params after DPDDP construction, W·D>|<per step, per rank: grad D, params D>|<union run: per step grad D, params D>|<draws per step: n {rank p std}>`
   or   `err <t> <ranks…>|…` with the steps before `t` (the hook raised on those ranks at step `t`). -/
open Opacus Opacus.Proto Opacus.Dist

instance : NatCast Float := ⟨Nat.toFloat⟩

def offsets (dims : List Nat) : List Nat := (dims.foldl (fun (acc : List Nat × Nat) d => (acc.1 ++ [acc.2], acc.2 + d)) ([], 0)).1

def mkGrad (dimsL : List Nat) (a : Array Float) (base : Nat) : Grad Float dimsL.length (fun p => dimsL[p]) :=
  let offs := (offsets dimsL).toArray
  fun p i => a.getD (base + offs.getD p.val 0 + i.val) 0.0

def flatten {dimsL : List Nat} (g : Grad Float dimsL.length (fun p => dimsL[p])) : List Float :=
  (List.ofFn fun p : Fin dimsL.length => List.ofFn fun i : Fin dimsL[p] => g p i).flatten

/-- evaluate once, so that closures do not nest across steps -/
def freeze {dimsL : List Nat} (g : Grad Float dimsL.length (fun p => dimsL[p])) :
    Grad Float dimsL.length (fun p => dimsL[p]) :=
  mkGrad dimsL (flatten g).toArray 0

def sq (x : Float) : Float := x * x

def normOf {n : Nat} (v : Fin n → Float) : Float := Float.sqrt (sumFin n fun i => sq (v i))

def fmin (a b : Float) : Float := if a < b then a else b

/-- flat clipping: `per_param_norms → stack → norm`, `(C / (norm + 1e-6)).clamp(max=1)` -/
def clipFlat {dimsL : List Nat} (C : Float) (g : Grad Float dimsL.length (fun p => dimsL[p])) :
    Fin dimsL.length → Float :=
  let n := Float.sqrt (sumFin dimsL.length fun p => sq (normOf (g p)))
  fun _ => fmin 1.0 (C / (n + 1e-6))

def clipPerLayer {dimsL : List Nat} (Cs : Array Float) (g : Grad Float dimsL.length (fun p => dimsL[p])) :
    Fin dimsL.length → Float :=
  fun p => fmin 1.0 (Cs.getD p.val 0.0 / (normOf (g p) + 1e-6))

structure Hdr where
  hook : Bool
  red : Reduction
  fxEmpty : Fix
  fxScale : Fix
  W : Nat
  dimsL : List Nat
  E : Float
  k : Float
  lr : Float
  std : Float
  noisy : Bool
  perLayer : Bool
  Cs : List Float

def fix? (s : String) : Option Fix := if s = "0" then some .asCoded else if s = "1" then some .repaired else none

def parseHdr : List String → Option (Hdr × List String)
  | v :: red :: fe :: fs :: w :: rest => do
    let hook ← if v = "A" then some false else if v = "H" then some true else none
    let red ← if red = "mean" then some Reduction.mean else if red = "sum" then some Reduction.sum else none
    let fe ← fix? fe
    let fs ← fix? fs
    let W ← w.toNat?
    let (dimsL, rest) ← takeList? String.toNat? rest
    match rest with
    | e :: k :: lr :: std :: noisy :: mode :: rest =>
      let E ← float? e
      let k ← float? k
      let lr ← float? lr
      let std ← float? std
      let noisy ← bool? noisy
      let perLayer ← if mode = "flat" then some false else if mode = "perlayer" then some true else none
      if rest.length < dimsL.length then none else
      let Cs ← (rest.take dimsL.length).mapM float?
      pure (⟨hook, red, fe, fs, W, dimsL, E, k, lr, std, noisy, perLayer, Cs⟩, rest.drop dimsL.length)
    | _ => none
  | _ => none

/-- per step: per rank `n` + rows, then `W·P` noise values -/
def parseStep (W D P : Nat) (toks : List String) : Option ((Array (Array Float × Nat)) × Array Float × List String) := do
  let mut toks := toks
  let mut shards : Array (Array Float × Nat) := #[]
  for _ in [0:W] do
    match toks with
    | n :: rest =>
      let n ← n.toNat?
      if rest.length < n * D then none
      let xs ← (rest.take (n * D)).mapM float?
      shards := shards.push (xs.toArray, n)
      toks := rest.drop (n * D)
    | [] => none
  if toks.length < W * P then none
  let zs ← (toks.take (W * P)).mapM float?
  pure (shards, zs.toArray, toks.drop (W * P))

def runCase (h : Hdr) (toks : List String) : Option String := do
  let dimsL := h.dimsL
  let P := dimsL.length
  let D := dimsL.foldl (· + ·) 0
  let W := h.W
  if hW : 0 < W then
    if toks.length < W * D + 1 then none
    let initA := ((← (toks.take (W * D)).mapM float?)).toArray
    let toks := toks.drop (W * D)
    let T ← toks.head?.bind String.toNat?
    let mut toks := toks.drop 1
    let clip : Grad Float P (fun p => dimsL[p]) → Fin P → Float :=
      if h.perLayer then clipPerLayer h.Cs.toArray else clipFlat (h.Cs.headD 0.0)
    let cD : Cfg Float P (fun p => dimsL[p]) :=
      ⟨h.red, engineEbs h.E true W, h.k, h.std, h.noisy, h.lr, clip⟩
    let cS : Cfg Float P (fun p => dimsL[p]) := cD.withEbs (engineEbs h.E false W)
    let θ0 : Fin W → Grad Float P (fun p => dimsL[p]) := fun w => mkGrad dimsL initA (w.val * D)
    -- DPDDP / DDP construction
    let mut θ : Fin W → Grad Float P (fun p => dimsL[p]) := dpddpInit hW θ0
    let initOut := (List.ofFn fun w => flatten (θ w)).flatten
    let mut θu : Grad Float P (fun p => dimsL[p]) := θ0 ⟨0, hW⟩
    let mut stepOut : List Float := []
    let mut unionOut : List Float := []
    let mut drawOut : List String := []
    let mut err : Option String := none
    for t in [0:T] do
      let (shards, zs, rest) ← parseStep W D P toks
      toks := rest
      let sh : Fin W → List (Grad Float P (fun p => dimsL[p])) := fun w =>
        let (xs, n) := shards.getD w.val (#[], 0)
        (List.range n).map fun j => mkGrad dimsL xs (j * D)
      let z : Fin W → Grad Float P (fun p => dimsL[p]) := fun w => fun p _ => zs.getD (w.val * P + p.val) 0.0
      -- single-process reference on the union batch (never fails)
      let gu := freeze (singleStepGrad cS (unionBatch sh) (z ⟨0, hW⟩))
      θu := freeze (sgd cS.lr θu gu)
      unionOut := unionOut ++ flatten gu ++ flatten θu
      if err.isNone then
        let res : Except (List (Fin W)) (Fin W → Grad Float P (fun p => dimsL[p])) :=
          if h.hook then hookStepGrad h.fxEmpty h.fxScale cD sh z else .ok (ddpStepGrad cD sh z)
        match res with
        | .error bad => err := some s!"err {t} {joinNats (bad.map (·.val))}"
        | .ok g =>
          let gA := (List.ofFn fun w => (flatten (g w)).toArray).toArray
          let gF : Fin W → Grad Float P (fun p => dimsL[p]) := fun w => mkGrad dimsL (gA.getD w.val #[]) 0
          let θA := (List.ofFn fun w => (flatten (sgd cD.lr (θ w) (gF w))).toArray).toArray
          θ := fun w => mkGrad dimsL (θA.getD w.val #[]) 0
          stepOut := stepOut ++ (List.ofFn fun w => flatten (gF w) ++ flatten (θ w)).flatten
          let dr := ddpDraws cD W
          drawOut := drawOut ++ [toString dr.length] ++ dr.map fun (w, p, s) => s!"{w.val} {p.val} {floatHex s}"
    if toks ≠ [] then none
    let head := err.getD "ok"
    pure s!"{head}|{joinFloats initOut}|{joinFloats stepOut}|{joinFloats unionOut}|{" ".intercalate drawOut}"
  else none

def handle (line : String) : String :=
  match words line with
  | "run" :: rest =>
    match parseHdr rest with
    | some (h, toks) => (runCase h toks).getD "bad-op"
    | none => "bad-op"
  | _ => "bad-op"

def main : IO Unit := runPure handle
