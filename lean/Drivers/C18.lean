import OpacusLean.Model.DistDriver
/-! driver for C18: the line protocol (documented in `OpacusLean/Model/DistDriver.lean`) over the
`Float` instance of `OpacusLean.Model.Dist` -/
def main : IO Unit := Opacus.Proto.runPure Opacus.DistDriver.handle
