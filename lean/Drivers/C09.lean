import OpacusLean.Model.Proto
import OpacusLean.Model.Binary64
import OpacusLean.Model.Sampler
/-! driver for C09.  Requests:
  `epoch <steps> <q> <N> <nd> u…`        Float instance of `Sampler.epoch`; `u` = `nd` draws of `N` values each
                                          (row-major, bit patterns); draws beyond `nd` do not exist → `err:draws`
        reply `<nb> k1 i… k2 i… …`       (nb batches, each length-prefixed)
  `epochq <qbits> <q32> <N> <nd> u…`     as `epoch` with `steps = int(1/q)` computed by the binary64 model from the rate's bit pattern
  `dist <variant> <steps> <q> <W> <rank> <n> perm… <nd> u…`   `Sampler.distEpoch` (each draw has `numSamples` values)
        reply as for `epoch`, preceded by `<numSamples> <shardLen>`
  `shard <W> <rank> <n> perm…`           → `<numSamples> <k> idx…`
  `collate <variant> <item>`             item grammar: `T r d1…dr dt | S dt | STR | NP r d… dt | TUP n item… | DICT n key item…`
        reply: batch in the grammar `T r d… dt | L n … | D n key … | STRS`, or `err:init` / `err:collate`
  `stepsq <qbits>`                       → `int(1/q)` (the samplers' default number of batches)
  `rate <variant> <L>`                   → `<lenDP> <qSampler bits> <qAcc bits> <lt qSampler qAcc>`
  `ebs <variant> <N> <L> <W>`            → `<ebs> <ebs/W bits>`
-/
open Opacus Opacus.Proto Opacus.Sampler

def svariant? : String → Option Sampler.Variant
  | "asCoded" => some .asCoded
  | "repaired" => some .repaired
  | _ => none

def bvariant? : String → Option Binary64.Variant
  | "asCoded" => some .asCoded
  | "repaired" => some .repaired
  | _ => none

def dt? : String → Option DT
  | "f16" => some .f16 | "f32" => some .f32 | "f64" => some .f64
  | "i8" => some .i8 | "i16" => some .i16 | "i32" => some .i32 | "i64" => some .i64
  | "u8" => some .u8 | "bool" => some .bool
  | "pyInt" => some .pyInt | "pyFloat" => some .pyFloat | "pyBool" => some .pyBool
  | _ => none

def dtStr : DT → String
  | .f16 => "f16" | .f32 => "f32" | .f64 => "f64" | .i8 => "i8" | .i16 => "i16" | .i32 => "i32"
  | .i64 => "i64" | .u8 => "u8" | .bool => "bool" | .pyInt => "pyInt" | .pyFloat => "pyFloat" | .pyBool => "pyBool"

/-- parse one item from the token stream (fuel = number of tokens) -/
def parseItem : Nat → List String → Option (Item × List String)
  | 0, _ => none
  | fuel + 1, toks =>
    match toks with
    | "T" :: rest => do
        let (dims, r) ← takeList? (·.toNat?) rest
        match r with
        | d :: r' => do let d ← dt? d; pure (.tensor dims d, r')
        | [] => none
    | "NP" :: rest => do
        let (dims, r) ← takeList? (·.toNat?) rest
        match r with
        | d :: r' => do let d ← dt? d; pure (.ndarray dims d, r')
        | [] => none
    | "S" :: d :: rest => do let d ← dt? d; pure (.scalar d, rest)
    | "STR" :: rest => some (.str, rest)
    | "TUP" :: n :: rest => do
        let n ← n.toNat?
        let rec go (k : Nat) (toks : List String) (acc : List Item) : Option (List Item × List String) :=
          match k with
          | 0 => some (acc.reverse, toks)
          | k + 1 => do let (it, r) ← parseItem fuel toks; go k r (it :: acc)
        let (xs, r) ← go n rest []
        pure (.tuple xs, r)
    | "DICT" :: n :: rest => do
        let n ← n.toNat?
        let rec goD (k : Nat) (toks : List String) (acc : List (String × Item)) : Option (List (String × Item) × List String) :=
          match k with
          | 0 => some (acc.reverse, toks)
          | k + 1 =>
            match toks with
            | key :: r => do let (it, r') ← parseItem fuel r; goD k r' ((key, it) :: acc)
            | [] => none
        let (xs, r) ← goD n rest []
        pure (.dict xs, r)
    | _ => none

partial def batchStr : Batch → String
  | .tensor s d => s!"T {s.length} {joinNats s}{if s.isEmpty then "" else " "}{dtStr d}"
  | .list xs => s!"L {xs.length}" ++ String.join (xs.map (fun x => " " ++ batchStr x))
  | .dict kvs => s!"D {kvs.length}" ++ String.join (kvs.map (fun kv => " " ++ kv.1 ++ " " ++ batchStr kv.2))
  | .strs => "L 0"

def listsStr (ls : List (List Nat)) : String :=
  s!"{ls.length}" ++ String.join (ls.map (fun l => s!" {l.length}" ++ String.join (l.map (fun i => s!" {i}"))))

/-- table of draws as a function; a missing entry is `none`-coded by a NaN sentinel flag -/
def drawFn (N : Nat) (tab : Array Float) (b i : Nat) : Float := tab.getD (b * N + i) (0.0 / 0.0)

def handle (line : String) : String :=
  match words line with
  | "epoch" :: steps :: q :: n :: nd :: us =>
    match steps.toNat?, float? q, n.toNat?, nd.toNat?, floats? us with
    | some steps, some q, some N, some nd, some us =>
      if us.length ≠ nd * N then "bad-op" else
      if nd < steps then "err:draws" else
      listsStr (epoch steps q N (drawFn N us.toArray))
    | _, _, _, _, _ => "bad-op"
  | "epochq" :: qb :: q :: n :: nd :: us =>
    match hexNat? qb, float? q, n.toNat?, nd.toNat?, floats? us with
    | some qb, some q, some N, some nd, some us =>
      let steps := Binary64.stepsOfRate (Binary64.ofBits qb)
      if us.length ≠ nd * N then "bad-op" else
      if nd < steps then s!"err:draws {steps}" else
      listsStr (epoch steps q N (drawFn N us.toArray))
    | _, _, _, _, _ => "bad-op"
  | "dist" :: v :: steps :: q :: w :: rank :: rest =>
    match svariant? v, steps.toNat?, float? q, w.toNat?, rank.toNat?, takeList? (·.toNat?) rest with
    | some v, some steps, some q, some W, some rank, some (perm, rest') =>
      match rest' with
      | nd :: us =>
        match nd.toNat?, floats? us with
        | some nd, some us =>
          let ns := numSamples perm.length W rank
          let sl := (shard perm W rank).length
          if W = 0 then "err:ZeroDivisionError" else
          if us.length ≠ nd * sl then "bad-op" else
          if nd < steps then "err:draws" else
          s!"{ns} {sl} " ++ listsStr (distEpoch v steps q perm W rank (drawFn sl us.toArray))
        | _, _ => "bad-op"
      | [] => "bad-op"
    | _, _, _, _, _, _ => "bad-op"
  | "shard" :: w :: rank :: rest =>
    match w.toNat?, rank.toNat?, takeList? (·.toNat?) rest with
    | some W, some rank, some (perm, []) =>
      if W = 0 then "err:ZeroDivisionError" else
      let sh := shard perm W rank
      s!"{numSamples perm.length W rank} {sh.length} {joinNats sh}"
    | _, _, _ => "bad-op"
  | "collate" :: v :: rest =>
    match svariant? v, parseItem (rest.length + 1) rest with
    | some v, some (item, []) =>
      match emptyCollate v item with
      | .ok b => batchStr b
      | .error .typeErrorAtInit => "err:init"
      | .error .typeErrorAtCollate => "err:collate"
    | _, _ => "bad-op"
  | ["stepsq", qb] =>
    match hexNat? qb with
    | some qb => s!"{Binary64.stepsOfRate (Binary64.ofBits qb)}"
    | none => "bad-op"
  | ["rate", v, l] =>
    match bvariant? v, l.toNat? with
    | some v, some L =>
      if L = 0 then "err:ZeroDivisionError" else
      let qs := Binary64.qSampler L
      let qa := Binary64.qAcc v L
      s!"{Binary64.lenDP v L} {hexOfNat (Binary64.toBits qs) 16} {hexOfNat (Binary64.toBits qa) 16} {boolStr (Binary64.lt qs qa)}"
    | _, _ => "bad-op"
  | ["ebs", v, n, l, w] =>
    match bvariant? v, n.toNat?, l.toNat?, w.toNat? with
    | some v, some N, some L, some W =>
      if L = 0 ∨ W = 0 then "err:ZeroDivisionError" else
      s!"{Binary64.ebs v N L} {hexOfNat (Binary64.toBits (Binary64.ebsDist v N L W)) 16}"
    | _, _, _, _ => "bad-op"
  | _ => "bad-op"

def main : IO Unit := runPure handle
