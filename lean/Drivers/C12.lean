import OpacusLean.Model.RdpProto
/-! driver for C12 (Float instance of the accountant models: RDP history / conversion, GDP mu and
delta(eps) dual, CLI script); protocol: see `Model/RdpProto.lean` -/
def main : IO Unit := Opacus.Proto.runLines Opacus.RdpProto.stepLine {}
