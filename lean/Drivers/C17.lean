import OpacusLean.Model.Sched
/-! driver for C17 (Float instance).  Requests:
  `new <sigma> <clip> <nkind> <nargs…> <ckind> <cargs…>`  kinds: `none` | `exp g` | `step g s` | `lam n f0 … f(n-1)` (table of the lambda)
  `ns` | `cs`            scheduler steps          reply: `<sigma> <clip>` (live values after the op)
  `opt`                  logical optimizer step   reply: `<sigma> <clip> <clip used> <noise std> <accounted sigma>`
  `vopt`                 skipped physical batch of a virtual step   reply: `<sigma> <clip> <clip used>`
  `save`                 snapshot of the scheduler state_dicts (and, for the repaired variant, the live values)
  `restore`              as coded: fresh optimizer (constructor values) + fresh schedulers + load_state_dict
  `restore_live`         repaired variant: live values restored as well
-/
open Opacus Opacus.Proto Opacus.Sched

def parseKind (base : Float) : List String → Option (Option (Kind Float) × List String)
  | "none" :: r => some (none, r)
  | "exp" :: g :: r => do let g ← float? g; pure (some (.exp g), r)
  | "step" :: g :: s :: r => do let g ← float? g; let s ← s.toNat?; pure (some (.step g s), r)
  | "lam" :: r => do
      let (tab, r') ← takeList? float? r
      pure (some (.lam base (fun e => tab.getD e.toNat 0.0)), r')
  | _ => none

structure D where
  e : Eng Float
  s0 : Float
  c0 : Float
  nk : Option (Kind Float)
  ck : Option (Kind Float)
  saved : Option (Eng Float)

def mk (s c : Float) (nk ck : Option (Kind Float)) : Eng Float :=
  let (s1, ns) := match nk with | some k => let (v, sc) := construct k s; (v, some sc) | none => (s, none)
  let (c1, cs) := match ck with | some k => let (v, sc) := construct k c; (v, some sc) | none => (c, none)
  ⟨s1, c1, ns, cs, [], []⟩

def fresh : D := ⟨⟨0, 0, none, none, [], []⟩, 0, 0, none, none, none⟩

def live (e : Eng Float) : String := s!"{floatHex e.sigma} {floatHex e.clip}"

def stepLine (d : D) (line : String) : D × String :=
  match words line with
  | "new" :: s :: c :: rest =>
    match float? s, float? c with
    | some s, some c =>
      match parseKind s rest with
      | some (nk, rest') =>
        match parseKind c rest' with
        | some (ck, []) =>
          let e' := mk s c nk ck
          (⟨e', s, c, nk, ck, none⟩, live e')
        | _ => (d, "bad-op")
      | none => (d, "bad-op")
    | _, _ => (d, "bad-op")
  | ["ns"] => let e' := d.e.step .noiseSched; ({ d with e := e' }, live e')
  | ["cs"] => let e' := d.e.step .clipSched; ({ d with e := e' }, live e')
  | ["opt"] =>
    let e' := d.e.step .optStep
    match e'.log.getLast? with
    | some (c, sd, a) => ({ d with e := e' }, s!"{live e'} {floatHex c} {floatHex sd} {floatHex a}")
    | none => (d, "bad-state")
  | ["vopt"] =>
    let e' := d.e.step .physStep
    match e'.phys.getLast? with
    | some c => ({ d with e := e' }, s!"{live e'} {floatHex c}")
    | none => (d, "bad-state")
  | ["save"] => ({ d with saved := some d.e }, live d.e)
  | ["restore"] =>
    match d.saved with
    | some sv =>
      let f := mk d.s0 d.c0 d.nk d.ck
      let e' : Eng Float := ⟨f.sigma, f.clip, sv.ns, sv.cs, d.e.log, d.e.phys⟩
      ({ d with e := e' }, live e')
    | none => (d, "bad-state")
  | ["restore_live"] =>
    match d.saved with
    | some sv => let e' := { sv with log := d.e.log, phys := d.e.phys }; ({ d with e := e' }, live e')
    | none => (d, "bad-state")
  | _ => (d, "bad-op")

def main : IO Unit := runLines stepLine fresh
