import OpacusLean.Model.Proto
import OpacusLean.Model.RnnCells
/-! driver for C13.  `<mode>` = `int` (decimal integers, exact; activations: relu = max 0,
"tanh" = clamp to [-2,2], "sigmoid" = clamp to [0,1] — the harness patches the same functions into
the DP layer for the exact structural channel) or `float` (binary64 hex; real tanh / logistic).
Lists are `n x1 … xn`.  Requests:

  `fwd <mode> <cast> <kind> <I> <H> <L> <bidir> <bias> <W> pad <batchFirst> <d0> <d1> <data> <init>`
  `fwd <mode> <cast> <kind> <I> <H> <L> <bidir> <bias> <W> pack <batch_sizes> <sorted_idx> <unsorted_idx> <data> <init>`
        cast: `id | f32` – conversion of the packed path's final states into the `h_last` buffer (`f32`: as coded under
        default dtype float32; finding C13:packed:state-dtype); kind: `tanh | relu | gru | lstm`; `<W>` all parameters flattened in `torch` `state_dict` order;
        index lists of length 0 mean `None`; `<init>` = `0` | `1 <h0>` | `1 <h0> <c0>` (lstm)
        reply: `ok <out> <h_n> [<c_n>]` (flattened, torch layout) | `err` (the model says: raises)
  `spec <mode> <cast> <kind> <I> <H> <L> <bidir> <bias> <W> <x> <init>`   one sequence `[T, I]`, states `[L·P, H]`
        reply: `ok <out> <h_n> [<c_n>]`
  `csl <batch_sizes>`                         reply: `ok <lens>` | `err`
  `bsz <lens>`                                reply: `ok <batch_sizes>`
  `pack <B> <seq_1> … <seq_B>`                reply: `ok <data>` of `pack_padded_sequence` (integer scalars)
  `keys <L> <bidir> <bias>`                   reply: DP `state_dict` keys      (rendered, in order)
  `tkeys <L> <bidir> <bias>`                  reply: `torch.nn` keys
  `rename <L> <bidir> <bias>`                 reply: `old=new …`
  `alias <L> <bidir> <bias>`                  reply: `key=path …` for every DP state_dict key
  `shapes <I> <H> <G> <L> <bidir> <bias>`     reply: `key:d0xd1 …` DP shapes through the alias
  `tshapes <I> <H> <G> <L> <bidir> <bias>`    reply: torch shapes
-/
open Opacus Opacus.Proto Opacus.Rnn

structure Num (R : Type) where
  parse : String → Option R
  str : R → String
  /-- round-trip through the default dtype float32 (`h_last = torch.zeros(B, H)` as coded) -/
  f32 : R → R

instance : Act Float :=
  ⟨Float.tanh, fun x => 1.0 / (1.0 + Float.exp (-x)), fun x => if x > 0.0 then x else 0.0⟩
instance : Act Int :=
  ⟨fun x => max (-2) (min 2 x), fun x => max 0 (min 1 x), fun x => max 0 x⟩

def numF : Num Float := ⟨float?, floatHex, fun x => x.toFloat32.toFloat⟩
def numI : Num Int := ⟨String.toInt?, toString, id⟩

abbrev Pm := StateT (List String) Option

def tok : Pm String := do
  match (← get) with
  | [] => failure
  | t :: r => set r; pure t
def ofOpt {α} : Option α → Pm α
  | some a => pure a
  | none => failure
def natP : Pm Nat := do ofOpt (← tok).toNat?
def boolP : Pm Bool := do ofOpt (bool? (← tok))
def listP {α} (p : String → Option α) : Pm (List α) := do
  let n ← natP
  let s ← get
  if s.length < n then failure
  set (s.drop n)
  ofOpt ((s.take n).mapM p)

/-- rows of width `n` -/
partial def rowsOf {α} (n : Nat) (l : List α) : List (List α) :=
  if n = 0 ∨ l.isEmpty then [] else l.take n :: rowsOf n (l.drop n)

def optList {α} (l : List α) : Option (List α) := if l.isEmpty then none else some l

def outList {R} (num : Num R) (l : List R) : String :=
  toString l.length ++ (l.foldl (fun acc x => acc ++ " " ++ num.str x) "")

section
variable {R : Type} [Add R] [Mul R] [Sub R] [Zero R] [One R] [Act R]

/-- carve the flat parameter list (torch `state_dict` order) into per-(layer, direction) cells -/
def carve (I H G L : Nat) (bidir bias : Bool) (w : List R) : Option (List (CellW R)) := do
  let P := if bidir then 2 else 1
  let mut rest := w
  let mut cells : List (CellW R) := []
  for l in List.range L do
    for _d in List.range P do
      let inp := if l = 0 then I else P * H
      let n1 := G * H * inp
      let n2 := G * H * H
      if rest.length < n1 + n2 then none
      let wih := rowsOf inp (rest.take n1)
      let whh := rowsOf H ((rest.drop n1).take n2)
      rest := rest.drop (n1 + n2)
      if bias then
        if rest.length < 2 * G * H then none
        cells := cells ++ [⟨wih, whh, some (rest.take (G * H)), some ((rest.drop (G * H)).take (G * H))⟩]
        rest := rest.drop (2 * G * H)
      else
        cells := cells ++ [⟨wih, whh, none, none⟩]
  if rest.isEmpty then some cells else none

inductive Inp (R : Type) where
  | pad (batchFirst : Bool) (x : List (List (List R)))
  | pack (bs : List Nat) (sorted unsorted : Option (List Nat)) (data : List (List R))

def runModel {S : Type} (cfg : Cfg (List R) S) (cast : S → S) (bidir : Bool) (L : Nat)
    (cells : List (List R → S → S)) (inp : Inp R) (init : Option (List (List S))) :
    Option (List (List R) × List (List S)) :=
  match inp with
  | .pad bf x => (forwardPadded cfg bidir L cells bf x init).map fun (o, hs) => (o.flatten, hs)
  | .pack bs s u data => forwardPacked cfg cast bidir L cells data bs s u init

def gatesOf : String → Option Nat
  | "tanh" => some 1 | "relu" => some 1 | "gru" => some 3 | "lstm" => some 4 | _ => none

def showRes (num : Num R) (lstm : Bool) (out : List (List R)) (hs : List (List (List R × List R))) : String :=
  let hn := (hs.map fun l => (l.map (·.1)).flatten).flatten
  let cn := (hs.map fun l => (l.map (·.2)).flatten).flatten
  "ok " ++ outList num out.flatten ++ " " ++ outList num hn ++ (if lstm then " " ++ outList num cn else "")

/-- header shared by `fwd` and `spec` -/
def headP (num : Num R) : Pm (String × Nat × Nat × Nat × Bool × Bool × List (CellW R) × (R → R)) := do
  let castTok ← tok
  let cast : R → R ← (match castTok with
    | "id" => pure id
    | "f32" => pure num.f32
    | _ => failure : Pm (R → R))
  let kind ← tok
  let G ← ofOpt (gatesOf kind)
  let I ← natP
  let H ← natP
  let L ← natP
  let bidir ← boolP
  let bias ← boolP
  let w ← listP num.parse
  let cells ← ofOpt (carve I H G L bidir bias w)
  pure (kind, I, H, L, bidir, bias, cells, cast)

def fwdP (num : Num R) : Pm String := do
  let (kind, I, H, L, bidir, _bias, cws, cast) ← headP num
  let P := if bidir then 2 else 1
  let which ← tok
  let (inp, B) ← (match which with
    | "pad" => do
      let bf ← boolP
      let d0 ← natP
      let d1 ← natP
      let data ← listP num.parse
      if data.length ≠ d0 * d1 * I then failure
      pure (Inp.pad bf (rowsOf d1 (rowsOf I data)), if bf then d0 else d1)
    | "pack" => do
      let bs ← listP String.toNat?
      let s ← listP String.toNat?
      let u ← listP String.toNat?
      let data ← listP num.parse
      if data.length % I ≠ 0 then failure
      pure (Inp.pack bs (optList s) (optList u) (rowsOf I data), bs.headD 0)
    | _ => failure : Pm (Inp R × Nat))
  let hasInit ← boolP
  let lstm := kind = "lstm"
  let h0 ← if hasInit then listP num.parse else pure []
  let c0 ← if hasInit ∧ lstm then listP num.parse else pure []
  if hasInit ∧ (h0.length ≠ L * P * B * H ∨ (lstm ∧ c0.length ≠ L * P * B * H)) then failure
  let h0s := rowsOf B (rowsOf H h0)
  let c0s := rowsOf B (rowsOf H c0)
  if lstm then
    let init := if hasInit then some (List.zipWith List.zip h0s c0s) else none
    match runModel (cfgHC H) (fun hc => (hc.1.map cast, hc.2.map cast)) bidir L (cws.map (lstmCell H)) inp init with
    | some (o, hs) => pure (showRes num true o hs)
    | none => pure "err"
  else
    let init := if hasInit then some h0s else none
    let cells : List (List R → List R → List R) :=
      if kind = "gru" then cws.map (gruCell H) else cws.map (rnnCell (kind = "relu"))
    match runModel (cfgH H) (·.map cast) bidir L cells inp init with
    | some (o, hs) => pure (showRes num false o (hs.map (·.map fun h => (h, []))))
    | none => pure "err"

def specP (num : Num R) : Pm String := do
  let (kind, I, H, L, bidir, _bias, cws, cast) ← headP num
  let P := if bidir then 2 else 1
  let x ← listP num.parse
  if x.length % I ≠ 0 then failure
  let xs := rowsOf I x
  let hasInit ← boolP
  let lstm := kind = "lstm"
  let h0 ← if hasInit then listP num.parse else pure []
  let c0 ← if hasInit ∧ lstm then listP num.parse else pure []
  if hasInit ∧ (h0.length ≠ L * P * H ∨ (lstm ∧ c0.length ≠ L * P * H)) then failure
  if lstm then
    let init := if hasInit then some (List.zip (rowsOf H h0) (rowsOf H c0)) else none
    match specForward (cfgHC H) (fun hc => (hc.1.map cast, hc.2.map cast)) bidir L (cws.map (lstmCell H)) init xs with
    | some (o, hs) => pure (showRes num true o [hs])
    | none => pure "err"
  else
    let init := if hasInit then some (rowsOf H h0) else none
    let cells : List (List R → List R → List R) :=
      if kind = "gru" then cws.map (gruCell H) else cws.map (rnnCell (kind = "relu"))
    match specForward (cfgH H) (·.map cast) bidir L cells init xs with
    | some (o, hs) => pure (showRes num false o [hs.map fun h => (h, [])])
    | none => pure "err"
end

def showShape (s : List Nat) : String := "x".intercalate (s.map toString)

def namesP : String → Pm String
  | "csl" => do
    let bs ← listP String.toNat?
    match computeSeqLengths bs with
    | some l => pure ("ok " ++ outList ⟨String.toNat?, toString, id⟩ l)
    | none => pure "err"
  | "bsz" => do
    let lens ← listP String.toNat?
    pure ("ok " ++ outList ⟨String.toNat?, toString, id⟩ (batchSizes lens))
  | "pack" => do
    -- `pack <B> <seq_1> … <seq_B>`: integer sequences (feature width 1), decreasing length
    let B ← natP
    let seqs ← (List.range B).mapM fun _ => listP String.toInt?
    pure ("ok " ++ outList ⟨String.toInt?, toString, id⟩ (packSteps seqs).flatten)
  | "keys" => do
    let L ← natP; let b ← boolP; let bias ← boolP
    pure (" ".intercalate ((stateDictKeys L b bias).map PName.render))
  | "tkeys" => do
    let L ← natP; let b ← boolP; let bias ← boolP
    pure (" ".intercalate ((torchKeys L b bias).map PName.render))
  | "rename" => do
    let L ← natP; let b ← boolP; let bias ← boolP
    pure (" ".intercalate ((renameMap L b bias).map fun (o, n) => o.render ++ "=" ++ n.render))
  | "alias" => do
    let L ← natP; let b ← boolP; let bias ← boolP
    let map := renameMap L b bias
    pure (" ".intercalate ((stateDictKeys L b bias).map fun k =>
      k.render ++ "=" ++ (match aliasOf map k with | some p => p.render | none => "?")))
  | "shapes" => do
    let I ← natP; let H ← natP; let G ← natP; let L ← natP; let b ← boolP; let bias ← boolP
    let map := renameMap L b bias
    pure (" ".intercalate ((stateDictKeys L b bias).map fun k =>
      k.render ++ ":" ++ (match aliasOf map k with | some p => showShape (dpShape I H G b p) | none => "?")))
  | "tshapes" => do
    let I ← natP; let H ← natP; let G ← natP; let L ← natP; let b ← boolP; let bias ← boolP
    pure (" ".intercalate ((torchKeys L b bias).map fun k => k.render ++ ":" ++ showShape (torchShape I H G b k)))
  | _ => failure

def top : Pm String := do
  let op ← tok
  match op with
  | "fwd" => do
    match (← tok) with
    | "int" => fwdP numI
    | "float" => fwdP numF
    | _ => failure
  | "spec" => do
    match (← tok) with
    | "int" => specP numI
    | "float" => specP numF
    | _ => failure
  | o => namesP o

def handle (line : String) : String :=
  match top.run (words line) with
  | some (r, []) => r
  | _ => "bad-op"

def main : IO Unit := runPure handle
