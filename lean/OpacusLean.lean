-- This module serves as the root of the `OpacusLean` library.
-- Import modules here that should be built as part of the library.
import OpacusLean.Basic
