/-! Spike: DPOptimizer protocol machine (standard optimizer), tokens = batch ids. -/
namespace Spike

structure Flagged where
  toks : List Nat
  processed : Bool
deriving Repr, DecidableEq

structure St where
  gs : List Flagged            -- [] = None ; singleton = tensor ; longer = list
  summed : Option Flagged
  lastSkipped : Bool
  queue : List Bool
  released : List (List Nat)
deriving Repr

inductive Op | fwdBwd (b : Nat) | step | zeroGrad | modZeroGrad | signal (s : Bool)
deriving Repr, DecidableEq

inductive Out | ok | errProcessed | errNoGrad
deriving Repr, DecidableEq

def init : St := ⟨[], none, false, [], []⟩

def step (s : St) : Op → St × Out
  | .fwdBwd b => ({ s with gs := s.gs ++ [⟨[b], false⟩] }, .ok)
  | .signal x => ({ s with queue := s.queue ++ [x] }, .ok)
  | .zeroGrad => ({ s with gs := [], summed := if s.lastSkipped then s.summed else none }, .ok)
  | .modZeroGrad => ({ s with gs := [] }, .ok)
  | .step =>
    if s.gs = [] then (s, .errNoGrad) else
    if s.gs.any (·.processed) then (s, .errProcessed) else
    -- clip_and_accumulate
    let g := (s.gs.map (·.toks)).flatten
    let summed' : Flagged := match s.summed with
      | none => ⟨g, false⟩
      | some f => ⟨f.toks ++ g, f.processed⟩      -- in-place += keeps the flag
    let gs' := s.gs.map (fun f => { f with processed := true })
    let (skip, q') := match s.queue with | [] => (false, []) | x :: q => (x, q)
    if skip then ({ s with gs := gs', summed := some summed', lastSkipped := true, queue := q' }, .ok)
    else if summed'.processed then
      ({ s with gs := gs', summed := some summed', queue := q' }, .errProcessed)
    else
      ({ s with gs := gs', summed := some ⟨summed'.toks, true⟩, lastSkipped := false, queue := q',
                released := s.released ++ [summed'.toks] }, .ok)

def run (s : St) (ops : List Op) : St := ops.foldl (fun s o => (step s o).1) s

/-- all token occurrences that are or may still become part of a release -/
def pendingToks (s : St) : List Nat :=
  (match s.summed with | some f => if f.processed then [] else f.toks | none => [])
  ++ ((s.gs.filter (!·.processed)).map (·.toks)).flatten

def Inv (s : St) : Prop :=
  (s.released.flatten ++ pendingToks s).Nodup ∧
  (∀ f, s.summed = some f → f.processed = true → ∀ t ∈ f.toks, t ∈ s.released.flatten)

#eval (run init [.fwdBwd 1, .signal true, .step, .zeroGrad, .fwdBwd 2, .step, .step]).released
#eval (step (run init [.fwdBwd 1, .step, .modZeroGrad, .fwdBwd 2]) .step).2
end Spike

namespace Spike
open List

theorem filter_not_processed_of_all {gs : List Flagged} (h : gs.any (·.processed) = false) :
    gs.filter (!·.processed) = gs := by
  induction gs with
  | nil => rfl
  | cons a t ih =>
    simp only [List.any_cons, Bool.or_eq_false_iff] at h
    simp [List.filter_cons, h.1, ih h.2]

theorem filter_processed_map (gs : List Flagged) :
    (gs.map (fun f => { f with processed := true })).filter (!·.processed) = [] := by
  induction gs with
  | nil => rfl
  | cons a t ih => simp [List.filter_cons, ih]

def NoDup1 (s : St) : Prop := (s.released.flatten ++ pendingToks s).Nodup

theorem step_preserves (s : St) (o : Op) (h : NoDup1 s)
    (hfresh : ∀ b, o = .fwdBwd b → b ∉ s.released.flatten ++ pendingToks s) :
    NoDup1 (step s o).1 := by
  unfold NoDup1 at *
  cases o with
  | signal x => simpa [step, pendingToks] using h
  | fwdBwd b =>
    have hb := hfresh b rfl
    simp only [step, pendingToks, List.filter_append, List.map_append, List.flatten_append] at *
    simp only [List.filter_cons, List.filter_nil, Bool.not_false, ite_true, List.map_cons, List.map_nil,
      List.flatten_cons, List.flatten_nil, List.append_nil] at *
    rw [← List.append_assoc, ← List.append_assoc]
    rw [← List.append_assoc] at h hb
    exact List.nodup_append.mpr ⟨h, by simp, by
      intro a ha c hc; simp at hc; subst hc; intro e; subst e; exact hb ha⟩
  | modZeroGrad =>
    simp only [step, pendingToks] at *
    simp only [List.filter_nil, List.map_nil, List.flatten_nil, List.append_nil]
    rw [← List.append_assoc] at h
    exact (List.nodup_append.mp h).1
  | zeroGrad =>
    simp only [step, pendingToks] at *
    rw [← List.append_assoc] at h
    have h1 := (List.nodup_append.mp h).1
    by_cases hs : s.lastSkipped <;> simp [hs] at * <;> first | exact h1 | exact (List.nodup_append.mp h1).1
  | step =>
    simp only [step]
    split
    · exact h
    · split
      · exact h
      · rename_i hne hany
        have hany' : s.gs.any (·.processed) = false := by simpa using hany
        have hf := filter_not_processed_of_all hany'
        simp only [pendingToks, hf] at h
        cases hq : s.queue with
        | nil =>
          cases hsum : s.summed with
          | none =>
            simp [hsum] at h
            simp [pendingToks, filter_processed_map, h]
          | some f =>
            simp [hsum] at h
            by_cases hp : f.processed
            · simp [hp, pendingToks, filter_processed_map] at h ⊢
              exact (List.nodup_append.mp h).1
            · simp [hp, pendingToks, filter_processed_map] at h ⊢
              simpa [List.append_assoc] using h
        | cons x q =>
          cases hsum : s.summed with
          | none =>
            simp [hsum] at h
            cases x <;> simp [pendingToks, filter_processed_map, h]
          | some f =>
            simp [hsum] at h
            by_cases hp : f.processed <;> cases x <;>
              simp [hp, pendingToks, filter_processed_map] at h ⊢ <;>
              first | exact h | exact (List.nodup_append.mp h).1 | simpa [List.append_assoc] using h

#print axioms step_preserves
end Spike
