import Mathlib.Analysis.Convex.SpecificFunctions.Basic
open Real

theorem bern (α t : ℝ) (hα : 1 ≤ α) (ht : 0 ≤ t) : α * t - (α - 1) ≤ t ^ α := by
  have h := one_add_mul_self_le_rpow_one_add (s := t - 1) (by linarith) hα
  have : (1 : ℝ) + (t - 1) = t := by ring
  rw [this] at h
  linarith

-- target:  x - e^ε ≤ e^{-(α-1)ε} · (α-1)^(α-1) / α^α · x^α   for α > 1, x ≥ 0
-- proof plan: t := x e^{-ε} (α-1)/α ; apply `bern`; multiply by e^ε/(α-1).
/-! Spike, NOT yet closed (two rewrite steps still fail; `bern` and `hpow` check):
    pointwise inequality behind the RDP→(ε,δ) conversion (Balle et al. 2020 Thm 21). -/
