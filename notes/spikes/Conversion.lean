import Mathlib.Analysis.Convex.SpecificFunctions.Basic
open Real

theorem bern (α t : ℝ) (hα : 1 ≤ α) (ht : 0 ≤ t) : α * t - (α - 1) ≤ t ^ α := by
  have h := one_add_mul_self_le_rpow_one_add (s := t - 1) (by linarith) hα
  have : (1 : ℝ) + (t - 1) = t := by ring
  rw [this] at h
  linarith

/-- pointwise bound: x - e^ε ≤ K x^α with K = e^{-(α-1)ε} (α-1)^(α-1) / α^α -/
theorem pointwise (α ε x : ℝ) (hα : 1 < α) (hx : 0 ≤ x) :
    x - rexp ε ≤ rexp (-(α - 1) * ε) * ((α - 1) ^ (α - 1) / α ^ α) * x ^ α := by
  have hα0 : 0 < α := by linarith
  have hα1 : 0 < α - 1 := by linarith
  have ht0 : 0 ≤ x * rexp (-ε) * ((α - 1) / α) := by positivity
  have hb := bern α (x * rexp (-ε) * ((α - 1) / α)) hα.le ht0
  have hpow : (x * rexp (-ε) * ((α - 1) / α)) ^ α
      = x ^ α * rexp (-ε * α) * ((α - 1) ^ α / α ^ α) := by
    rw [mul_rpow (by positivity) (by positivity), mul_rpow hx (exp_pos _).le,
      div_rpow hα1.le hα0.le, ← exp_mul]
  have hsplit : (α - 1) ^ α = (α - 1) ^ (α - 1) * (α - 1) := by
    have := rpow_add_one hα1.ne' (α - 1)
    rw [show α - 1 + 1 = α by ring] at this
    exact this
  have hexp : rexp (-(α - 1) * ε) = rexp (-ε * α) * rexp ε := by
    rw [← exp_add]; congr 1; ring
  have hee : rexp ε * rexp (-ε) = 1 := by rw [← exp_add]; simp
  have hpos : 0 < rexp ε / (α - 1) := by positivity
  have h2 := mul_le_mul_of_nonneg_left hb hpos.le
  have e1 : rexp ε / (α - 1) * (α * (x * rexp (-ε) * ((α - 1) / α)) - (α - 1)) = x - rexp ε := by
    have : rexp ε / (α - 1) * (α * (x * rexp (-ε) * ((α - 1) / α)) - (α - 1))
        = x * (rexp ε * rexp (-ε)) - rexp ε := by field_simp
    rw [this, hee, mul_one]
  rw [e1, hpow, hsplit] at h2
  calc x - rexp ε ≤ _ := h2
    _ = _ := by rw [hexp]; field_simp
#print axioms pointwise
