import torch, torch.nn as nn, warnings, itertools, random
warnings.filterwarnings("ignore")
from opacus.layers import DPLSTM, DPGRU, DPRNN
from torch.nn.utils.rnn import pack_padded_sequence, pad_packed_sequence
torch.set_default_dtype(torch.float64)
random.seed(0); torch.manual_seed(0)
bad=0; n=0
for kind,(T,D) in (("lstm",(nn.LSTM,DPLSTM)),("gru",(nn.GRU,DPGRU)),("rnn_tanh",(nn.RNN,DPRNN)),("rnn_relu",(nn.RNN,DPRNN))):
  for L,bi,bias,bf,packed,init,sort in itertools.product((1,2,3),(False,True),(False,True),(False,True),(False,True),(False,True),(False,True)):
    if not packed and sort: continue
    kw = dict(num_layers=L,bidirectional=bi,bias=bias,batch_first=bf)
    if kind.startswith("rnn"): kw["nonlinearity"]=kind.split("_")[1]
    t = T(3,4,**kw); d = D(3,4,**kw)
    d.load_state_dict(t.state_dict())
    assert set(d.state_dict().keys())==set(t.state_dict().keys()), (d.state_dict().keys(), t.state_dict().keys())
    B,S=4,5
    x = torch.randn(B,S,3) if bf else torch.randn(S,B,3)
    lens = [random.randint(1,S) for _ in range(B)]
    if sort: lens = sorted(lens, reverse=True)
    xin = pack_padded_sequence(x, lens, batch_first=bf, enforce_sorted=sort) if packed else x
    nd = 2 if bi else 1
    st=None
    if init:
        h0 = torch.randn(L*nd,B,4); st = (h0, torch.randn(L*nd,B,4)) if kind=="lstm" else h0
    try:
        o1,s1 = t(xin,st); o2,s2 = d(xin,st)
    except Exception as e:
        print("EXC", kind, kw, packed, init, sort, type(e).__name__, str(e)[:80]); bad+=1; continue
    if packed:
        o1,_ = pad_packed_sequence(o1,batch_first=bf); o2,_=pad_packed_sequence(o2,batch_first=bf)
    diffs=[(o1-o2).abs().max().item()]
    if kind=="lstm": diffs += [(s1[0]-s2[0]).abs().max().item(), (s1[1]-s2[1]).abs().max().item()]
    else: diffs.append((s1-s2).abs().max().item())
    # gradients
    t.zero_grad(); d.zero_grad()
    w = torch.randn_like(o1)
    (o1*w).sum().backward(); (o2*w).sum().backward()
    gd = max((p.grad-q.grad).abs().max().item() for (_,p),(_,q) in zip(sorted(t.named_parameters()), sorted(d.named_parameters())))
    n+=1
    if max(diffs+[gd])>1e-9:
        bad+=1; print("DIFF", kind, kw, "packed",packed,"init",init,"sorted",sort, diffs, gd)
print("cases",n,"bad",bad)
