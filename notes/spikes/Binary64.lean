/-! exact binary64 round-to-nearest-even on positive rationals p/q, result as (m, e) meaning m * 2^e, m in [2^52, 2^53) -/
structure B64 where
  m : Nat
  e : Int
deriving Repr, DecidableEq

/-- floor(log2 (p/q)) for p,q>0 -/
def ilog2 (p q : Nat) : Int :=
  let a : Int := (Nat.log2 p : Int) - (Nat.log2 q : Int)
  -- candidate a or a-1 : check 2^a ≤ p/q
  let ok (k : Int) : Bool := if k ≥ 0 then q * 2 ^ k.toNat ≤ p else q ≤ p * 2 ^ (-k).toNat
  if ok (a+1) then a+1 else if ok a then a else a - 1

def rne (p q : Nat) : B64 :=
  let l := ilog2 p q
  let e : Int := l - 52
  -- scaled = p/q / 2^e = num/den
  let (num, den) := if e ≥ 0 then (p, q * 2 ^ e.toNat) else (p * 2 ^ (-e).toNat, q)
  let fl := num / den
  let r := num % den
  let m := if 2 * r < den then fl else if 2 * r > den then fl + 1 else (if fl % 2 = 0 then fl else fl + 1)
  if m = 2 ^ 53 then ⟨2 ^ 52, e + 1⟩ else ⟨m, e⟩

/-- fl(1/L) then fl(1/that) then trunc -/
def stepsOf (L : Nat) : Nat :=
  let r := rne 1 L                 -- r = m * 2^e
  -- 1/r = 2^(-e) / m
  let (p, q) := if r.e ≥ 0 then (1, r.m * 2 ^ r.e.toNat) else (2 ^ (-r.e).toNat, r.m)
  let s := rne p q
  -- trunc (s.m * 2^s.e)
  if s.e ≥ 0 then s.m * 2 ^ s.e.toNat else s.m / 2 ^ (-s.e).toNat

def stepsFloat (L : Nat) : Nat := ((1.0 : Float) / ((1.0 : Float) / L.toFloat)).toUInt64.toNat

#eval (List.range 2001).filter (fun L => L ≥ 1 ∧ stepsOf L ≠ L) |>.length
#eval (List.range 2001).filter (fun L => L ≥ 1 ∧ stepsOf L ≠ stepsFloat L)
#eval (List.range 300).filter (fun L => L ≥ 1 ∧ stepsOf L ≠ L) |>.take 8
example : stepsOf 93 = 92 := by decide +kernel
