import Mathlib.Probability.Distributions.Gaussian.Real
open MeasureTheory ProbabilityTheory Real Finset
open scoped NNReal

lemma integral_exp_mul_gaussian (v : ℝ≥0) (t : ℝ) :
    ∫ x, rexp (t * x) ∂(gaussianReal 0 v) = rexp (v * t ^ 2 / 2) := by
  have h := mgf_gaussianReal (p := gaussianReal 0 v) (X := id) (μ := 0) (v := v) (by simp) t
  simpa [mgf] using h

noncomputable def ratio (q s2 x : ℝ) : ℝ := (1 - q) + q * rexp ((2 * x - 1) / (2 * s2))

theorem sgm_moment_int (q : ℝ) (s2 : ℝ≥0) (hs : (s2 : ℝ) ≠ 0) (α : ℕ) :
    ∫ x, (ratio q s2 x) ^ α ∂(gaussianReal 0 s2)
      = ∑ k ∈ range (α + 1),
          (α.choose k : ℝ) * (1 - q) ^ (α - k) * q ^ k * rexp (((k:ℝ) ^ 2 - k) / (2 * s2)) := by
  have hexp : ∀ (k : ℕ) (x : ℝ), (q * rexp ((2 * x - 1) / (2 * s2))) ^ k
      = q ^ k * rexp (-(k:ℝ) / (2 * s2)) * rexp ((k:ℝ) / s2 * x) := by
    intro k x
    rw [mul_pow, ← Real.exp_nat_mul, mul_assoc, ← Real.exp_add]
    congr 2
    field_simp
    ring
  have hint : ∀ k : ℕ, Integrable (fun x => (q * rexp ((2 * x - 1) / (2 * s2))) ^ k * (1 - q) ^ (α - k) * (α.choose k : ℝ)) (gaussianReal 0 s2) := by
    intro k
    simp_rw [hexp]
    have := (integrable_exp_mul_gaussianReal (μ := 0) (v := s2) ((k:ℝ) / s2))
    exact ((this.const_mul (q ^ k * rexp (-(k:ℝ) / (2 * s2)))).mul_const _).mul_const _
  simp_rw [ratio, add_comm (1 - q), add_pow]
  rw [integral_finset_sum _ (fun k _ => hint k)]   -- deprecated alias of integral_finsetSum
  refine Finset.sum_congr rfl fun k _ => ?_
  simp_rw [hexp]
  rw [integral_mul_const, integral_mul_const, integral_const_mul, integral_exp_mul_gaussian]
  have : rexp (-(k:ℝ) / (2 * s2)) * rexp (s2 * ((k:ℝ) / s2) ^ 2 / 2) = rexp (((k:ℝ) ^ 2 - k) / (2 * s2)) := by
    rw [← Real.exp_add]; congr 1; field_simp; ring
  rw [mul_assoc (q ^ k), this]; ring
#print axioms sgm_moment_int   -- [propext, Classical.choice, Quot.sound]
/-! Spike (checked, 15 s warm): the integer-order moment of the sampled Gaussian
    mechanism, i.e. what `_compute_log_a_for_int_alpha` evaluates in log space. -/
