import warnings; warnings.filterwarnings("ignore")
import numpy as np, math
from scipy import integrate
from opacus.accountants.analysis import rdp as R
from opacus.accountants import RDPAccountant
def true_rdp(q,s,a):
    # log-domain integrand, integrate exp(logf - M)
    def logf(z):
        lr = np.logaddexp(math.log1p(-q), math.log(q) + (2*z-1)/(2*s*s))
        return -z*z/(2*s*s) - 0.5*math.log(2*math.pi*s*s) + a*lr
    zs = np.linspace(-12*s, a + 12*s, 200001)
    lf = logf(zs); M = lf.max()
    val = integrate.simpson(np.exp(lf-M), x=zs)
    return (math.log(val)+M)/(a-1)
worst=(0,None); under=[]
for q in (1e-4,1e-3,0.01,0.05,0.2,0.5,0.9):
  for s in (0.3,0.5,0.8,1.0,2.0,5.0):
    for a in (1.1,1.5,2.0,2.5,3.7,6.0,10.9,12,20,33.5,63):
      try:
        c = R._compute_rdp(q,s,a)
      except Exception as e:
        print("EXC",q,s,a,type(e).__name__,e); continue
      t = true_rdp(q,s,a)
      rel = (c-t)/max(abs(t),1e-300)
      if abs(rel)>worst[0]: worst=(abs(rel),(q,s,a,c,t))
      if c < t*(1-1e-6)-1e-12: under.append((q,s,a,c,t))
print("worst rel", worst); print("under-reports", len(under)); print(*under[:10],sep="\n")
