import torch, torch.nn as nn, warnings
warnings.filterwarnings("ignore")
from opacus import PrivacyEngine
from opacus.utils.batch_memory_manager import BatchMemoryManager
from torch.utils.data import TensorDataset, DataLoader
torch.set_default_dtype(torch.float64)
def run(mode, maxphys, red, N=40, bs=8, epochs=2):
    torch.manual_seed(0)
    X = torch.randn(N,5); Y = torch.randint(0,3,(N,))
    m = nn.Sequential(nn.Linear(5,4), nn.ReLU(), nn.Linear(4,3))
    opt = torch.optim.SGD(m.parameters(), lr=0.5, momentum=0.9)
    g = torch.Generator().manual_seed(7)
    dl = DataLoader(TensorDataset(X,Y), batch_size=bs, generator=g)
    pe = PrivacyEngine(accountant="rdp")
    ng = torch.Generator().manual_seed(11)
    crit = nn.CrossEntropyLoss(reduction=red)
    r = pe.make_private(module=m, optimizer=opt, data_loader=dl, noise_multiplier=1.0, max_grad_norm=0.7, loss_reduction=red, noise_generator=ng, grad_sample_mode=mode, criterion=crit)
    if mode=="ghost": gm,opt,crit,dl = r
    else: gm,opt,dl = r
    sizes=[]
    def loop(loader):
        for x,y in loader:
            sizes.append(len(x))
            opt.zero_grad()
            loss = crit(gm(x), y); loss.backward(); opt.step()
    for _ in range(epochs):
        if maxphys is None: loop(dl)
        else:
            with BatchMemoryManager(data_loader=dl, max_physical_batch_size=maxphys, optimizer=opt) as l2: loop(l2)
    return torch.cat([p.detach().flatten() for p in m.parameters()]), pe.accountant.history, sizes
for mode in ("hooks","ghost"):
  for red in ("mean","sum"):
    ref, h0, s0 = run(mode, None, red)
    for mp in (1,2,3,8,100):
        p, h, s = run(mode, mp, red)
        print(mode, red, "max_phys", mp, "param diff", (p-ref).abs().max().item(), "hist eq", h==h0, "max size", max(s), "n empty", sum(1 for z in s0 if z==0))
