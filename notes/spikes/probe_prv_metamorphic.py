import warnings; warnings.filterwarnings("ignore")
import numpy as np, itertools, random
from opacus.accountants import RDPAccountant, PRVAccountant, GaussianAccountant
random.seed(1)
def eps(acc, hist, delta, **kw):
    a = acc(); a.history=list(hist); return a.get_epsilon(delta, **kw)
bad=[]
# monotone in n & parity; prv<=rdp
for sigma,q in ((1.0,0.01),(0.8,0.05),(2.0,0.1),(0.6,0.002),(1.5,1.0)):
    prev=0
    for n in (1,2,3,4,5,10,11,50,51,200,201):
        try:
            ep = eps(PRVAccountant, [(sigma,q,n)], 1e-5); er = eps(RDPAccountant, [(sigma,q,n)], 1e-5)
        except Exception as e:
            print("EXC", sigma,q,n,type(e).__name__, str(e)[:60]); continue
        if ep < prev-0.02: bad.append(("nonmono",sigma,q,n,prev,ep))
        if ep > er+0.02: bad.append(("prv>rdp",sigma,q,n,ep,er))
        prev=ep
# heterogeneous: order invariance & run splitting
for _ in range(15):
    h=[(random.choice([0.7,1.0,1.3,2.0]), random.choice([0.005,0.01,0.05]), random.randint(1,40)) for _ in range(random.randint(2,5))]
    e1=eps(PRVAccountant,h,1e-5); h2=h[:]; random.shuffle(h2); e2=eps(PRVAccountant,h2,1e-5)
    # split first run
    s,q,n=h[0]; h3=[(s,q,n//2),(s,q,n-n//2)]+h[1:] if n>1 else h
    e3=eps(PRVAccountant,h3,1e-5)
    er=eps(RDPAccountant,h,1e-5)
    if abs(e1-e2)>0.02 or abs(e1-e3)>0.02 or e1>er+0.02: bad.append(("hetero",h,e1,e2,e3,er))
print("bad",len(bad)); print(*bad[:10],sep="\n")
