/-! Spike: forward-direction packed loop of DPRNNBase.forward_layer vs per-sequence recurrence. -/
namespace Spike
variable {X H : Type}

/-- the time loop: state rows `h` (one per still-active sequence), steps `xs` (row lists, non-increasing length) -/
def runPacked (cell : X → H → H) : List H → List (List X) → List (List H)
  | _, [] => []
  | h, x :: xs =>
    let hNext := List.zipWith cell x (h.take x.length)
    hNext :: runPacked cell hNext xs

/-- per-sequence spec: state of sequence `i` after consuming steps `xs` (those in which it is active) -/
def specState (cell : X → H → H) (i : Nat) : H → List (List X) → H
  | h, [] => h
  | h, x :: xs => match x[i]? with
    | some xi => specState cell i (cell xi h) xs
    | none => h

/-- lengths non-increasing and bounded by the initial batch -/
def Shrinking : Nat → List (List X) → Prop
  | _, [] => True
  | n, x :: xs => x.length ≤ n ∧ Shrinking x.length xs

theorem zipWith_take_get (cell : X → H → H) (x : List X) (h : List H) (i : Nat)
    (hx : x.length ≤ h.length) (hi : i < x.length) :
    (List.zipWith cell x (h.take x.length))[i]? = some (cell (x[i]'hi) (h[i]'(Nat.lt_of_lt_of_le hi hx))) := by
  simp [List.getElem?_zipWith, List.getElem?_take, hi, List.getElem?_eq_getElem hi,
    List.getElem?_eq_getElem (Nat.lt_of_lt_of_le hi hx)]

/-- output at step `t` for a still-active row `i` is the per-sequence state after t+1 steps -/
theorem packed_refines_spec (cell : X → H → H) :
    ∀ (xs : List (List X)) (h : List H) (t i : Nat) (x : List X),
      Shrinking h.length xs → xs[t]? = some x → (hi : i < x.length) →
      ∃ (hih : i < h.length),
        ((runPacked cell h xs)[t]?).bind (·[i]?) = some (specState cell i (h[i]) (xs.take (t+1))) := by
  intro xs
  induction xs with
  | nil => intro h t i x _ hx; simp at hx
  | cons y ys ih =>
    intro h t i x hs hx hi
    obtain ⟨hyl, hys⟩ := hs
    cases t with
    | zero =>
      simp at hx; subst hx
      have hih : i < h.length := Nat.lt_of_lt_of_le hi hyl
      refine ⟨hih, ?_⟩
      simp [runPacked, specState, zipWith_take_get cell y h i hyl hi, List.getElem?_eq_getElem hi]
    | succ t =>
      simp at hx
      -- i < x.length ≤ ... ≤ y.length
      have hlen : (List.zipWith cell y (h.take y.length)).length = y.length := by
        simp [List.length_zipWith, List.length_take, Nat.min_eq_left hyl]
      have hys' : Shrinking (List.zipWith cell y (h.take y.length)).length ys := by rw [hlen]; exact hys
      obtain ⟨hi', hrec⟩ := ih (List.zipWith cell y (h.take y.length)) t i x hys' hx hi
      have hiy : i < y.length := by rw [hlen] at hi'; exact hi'
      have hih : i < h.length := Nat.lt_of_lt_of_le hiy hyl
      refine ⟨hih, ?_⟩
      have hz := zipWith_take_get cell y h i hyl hiy
      have hget : (List.zipWith cell y (h.take y.length))[i] = cell (y[i]) (h[i]) := by
        have := List.getElem?_eq_getElem hi'
        rw [hz] at this; exact (Option.some.inj this).symm
      simp only [runPacked, List.getElem?_cons_succ, List.take_succ_cons, specState,
        List.getElem?_eq_getElem hiy]
      rw [hrec, hget]
#print axioms packed_refines_spec
end Spike
