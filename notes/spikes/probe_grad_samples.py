import torch, torch.nn as nn, warnings, itertools, traceback
warnings.filterwarnings("ignore")
from opacus import GradSampleModule
from opacus.layers import DPLSTM, DPGRU, DPRNN, DPMultiheadAttention
torch.manual_seed(0)
torch.set_default_dtype(torch.float64)
def check(name, make, xs, mode="hooks", batch_first=True, red="mean"):
    try:
        m = make(); 
        import copy
        ref = copy.deepcopy(m)
        gsm = GradSampleModule(m, batch_first=batch_first, loss_reduction=red, force_functorch=(mode=="functorch"))
        x = xs()
        out = gsm(x); out = out[0] if isinstance(out, tuple) else out
        bd = 0 if batch_first else 1
        B = x.shape[bd]
        w = torch.randn_like(out)
        per = (out*w).transpose(0,bd).reshape(B,-1).sum(1)
        loss = per.mean() if red=="mean" else per.sum()
        loss.backward()
        worst = 0
        for (n,p),(n2,q) in zip(m.named_parameters(), ref.named_parameters()):
            if not p.requires_grad: continue
            for i in range(B):
                xi = x.narrow(bd,i,1); wi = w.narrow(bd,i,1)
                ref.zero_grad()
                o = ref(xi); o = o[0] if isinstance(o, tuple) else o
                (o*wi).sum().backward()
                g = q.grad if q.grad is not None else torch.zeros_like(q)
                worst = max(worst, (p.grad_sample[i]-g).abs().max().item())
        print(f"{name:55s} {mode:9s} bf={batch_first} {red:4s} maxdiff={worst:.2e}", "FAIL" if worst>1e-8 else "")
    except Exception as e:
        print(f"{name:55s} {mode:9s} bf={batch_first} {red:4s} EXC {type(e).__name__}: {str(e)[:80]}")
for mode in ("hooks","functorch"):
    check("Conv2d reflect pad", lambda: nn.Conv2d(2,3,3,padding=1,padding_mode="reflect"), lambda: torch.randn(3,2,5,5), mode)
    check("Conv2d circular pad", lambda: nn.Conv2d(2,3,3,padding=1,padding_mode="circular"), lambda: torch.randn(3,2,5,5), mode)
    check("Conv1d same even kernel dil2", lambda: nn.Conv1d(2,4,4,padding="same",dilation=2,groups=2), lambda: torch.randn(3,2,9), mode)
    check("Conv2d same even k, stride1 groups", lambda: nn.Conv2d(4,4,(2,3),padding="same",dilation=(2,1),groups=2), lambda: torch.randn(3,4,6,7), mode)
    check("Conv3d dil stride", lambda: nn.Conv3d(2,2,(2,3,2),padding=(1,0,1),dilation=(1,2,1),stride=(2,1,1)), lambda: torch.randn(2,2,5,6,5), mode)
    check("Conv3d same", lambda: nn.Conv3d(2,2,(2,3,2),padding="same"), lambda: torch.randn(2,2,4,5,4), mode)
    check("LayerNorm bias=False", lambda: nn.LayerNorm(4,bias=False), lambda: torch.randn(3,5,4), mode)
    check("LayerNorm 2d normalized", lambda: nn.LayerNorm((5,4)), lambda: torch.randn(3,2,5,4), mode)
    check("GroupNorm", lambda: nn.GroupNorm(2,4), lambda: torch.randn(3,4,5), mode)
    check("InstanceNorm1d affine", lambda: nn.InstanceNorm1d(4,affine=True), lambda: torch.randn(3,4,5), mode)
    check("Linear 4D input", lambda: nn.Linear(4,3), lambda: torch.randn(3,2,5,4), mode)
    check("Linear batch_second 3D", lambda: nn.Linear(4,3), lambda: torch.randn(5,3,4), mode, batch_first=False)
    check("Linear sum", lambda: nn.Linear(4,3), lambda: torch.randn(3,4), mode, red="sum")
    check("Seq tied", lambda: (lambda l: nn.Sequential(l, nn.Tanh(), l))(nn.Linear(4,4)), lambda: torch.randn(3,4), mode)
    check("B=1", lambda: nn.Linear(4,3), lambda: torch.randn(1,4), mode)
    check("B=0", lambda: nn.Linear(4,3), lambda: torch.randn(0,4), mode)
    check("Embedding", lambda: nn.Embedding(6,3), lambda: torch.randint(0,6,(3,4)), mode) if False else None
    check("DPLSTM 2l bidir bf", lambda: DPLSTM(3,4,num_layers=2,bidirectional=True,batch_first=True), lambda: torch.randn(3,5,3), mode)
    check("DPGRU batch_second", lambda: DPGRU(3,4,batch_first=False), lambda: torch.randn(5,3,3), mode, batch_first=False)
    check("DPGRU batch_second but gsm batch_first", lambda: DPGRU(3,4,batch_first=False), lambda: torch.randn(5,3,3), mode, batch_first=True) if False else None
