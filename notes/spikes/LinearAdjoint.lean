import Mathlib.Algebra.BigOperators.Fin
import Mathlib.Algebra.BigOperators.Ring.Finset
import Mathlib.Tactic.Ring

namespace Opacus

def sumFin {R} [Add R] [Zero R] (n : Nat) (f : Fin n → R) : R :=
  Fin.foldl n (fun acc i => acc + f i) 0

def linearWeightGS {R} [Add R] [Mul R] [Zero R] {T O I : Nat}
    (b : Fin T → Fin O → R) (a : Fin T → Fin I → R) : Fin O → Fin I → R :=
  fun i j => sumFin T (fun t => b t i * a t j)

def linearBiasGS {R} [Add R] [Zero R] {T O : Nat} (b : Fin T → Fin O → R) : Fin O → R :=
  fun i => sumFin T (fun t => b t i)

def linearFwd {R} [Add R] [Mul R] [Zero R] {T O I : Nat}
    (w : Fin O → Fin I → R) (bias : Fin O → R) (a : Fin T → Fin I → R) : Fin T → Fin O → R :=
  fun t i => sumFin I (fun j => w i j * a t j) + bias i

end Opacus
open Opacus

theorem sumFin_eq_sum {R} [AddCommMonoid R] (n : Nat) (f : Fin n → R) :
    sumFin n f = ∑ i, f i := by
  unfold sumFin
  induction n with
  | zero => simp [Fin.foldl_zero]
  | succ n ih =>
    rw [Fin.foldl_succ_last, Fin.sum_univ_castSucc, ← ih]

theorem linear_adjoint {R} [CommRing R] {T O I : Nat}
    (w : Fin O → Fin I → R) (bias : Fin O → R)
    (a : Fin T → Fin I → R) (b : Fin T → Fin O → R) :
    (∑ t, ∑ i, b t i * linearFwd w bias a t i)
      = (∑ i, ∑ j, linearWeightGS b a i j * w i j) + ∑ i, linearBiasGS b i * bias i := by
  simp only [linearFwd, linearWeightGS, linearBiasGS, sumFin_eq_sum, mul_add, Finset.sum_add_distrib,
    Finset.mul_sum, Finset.sum_mul]
  congr 1
  · rw [Finset.sum_comm]
    refine Finset.sum_congr rfl fun i _ => ?_
    rw [Finset.sum_comm]
    refine Finset.sum_congr rfl fun j _ => ?_
    refine Finset.sum_congr rfl fun t _ => ?_
    ring
  · rw [Finset.sum_comm]
#print axioms linear_adjoint   -- [propext, Classical.choice, Quot.sound]
/-! Spike (checked with `lake build` in a scratch `lake new spike lib` project, 5 s):
    tensors as total functions on `Fin`, core-only `sumFin`, bridge to `Finset.sum`,
    adjoint identity for nn.Linear's grad sampler over any commutative ring.
    In the real project the first namespace lives in a Mathlib-free Model file. -/
